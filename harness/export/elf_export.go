//go:build verif

package elf

import "mltwist/pkg/model"

// VerifMemory builds a Memory from (address, bytes) blocks exactly as the ELF
// loader does after it has extracted them (for the /verif conformance harness).
func VerifMemory(addrs []model.Addr, bytes [][]byte) (*Memory, error) {
	bs := make([]Block, len(addrs))
	for i := range addrs {
		bs[i] = newBlock(addrs[i], bytes[i])
	}
	return newMemory(bs)
}
