//go:build verif

package disassemble

import (
	"mltwist/internal/consoleui"
	"mltwist/internal/consoleui/internal/lines"
)

// VerifView returns the listing view of a disassemble mode.
func VerifView(m consoleui.Mode) (*lines.View, bool) {
	d, ok := m.(*mode)
	if !ok {
		return nil, false
	}
	return d.view, true
}
