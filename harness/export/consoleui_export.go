//go:build verif

package consoleui

// Read-only / pass-through access for the /verif conformance harness.

// VerifProcess reads and executes exactly one command line (UI.processCommand).
func (c *UI) VerifProcess() error { return c.processCommand() }

// VerifDepth is the height of the mode stack.
func (c *UI) VerifDepth() int { return len(c.modeStack) }

// VerifMode returns the current mode and its name ("" if the stack is empty).
func (c *UI) VerifMode() (Mode, string) {
	if len(c.modeStack) == 0 {
		return nil, ""
	}
	return c.mode().mode, c.mode().name
}

// VerifFormat is the help text wrapper.
func VerifFormat(s string, indent int, width int) string { return format(s, indent, width) }
