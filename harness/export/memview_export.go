//go:build verif

package memview

import (
	"mltwist/internal/consoleui"
	"mltwist/internal/consoleui/internal/view"
	"mltwist/internal/state/memory"
)

// VerifParseAddr is the address argument parser of the memory view.
func VerifParseAddr(s string) (interface{}, error) { return parseAddr(s) }

// VerifRow describes one row of the memory view: an ellipsis row or a 16-byte window.
type VerifRow struct {
	Ellipsis bool
	Addr     uint64
}

// VerifRows returns the rows and the cursor (-1: no cursor) of a memory view mode.
func VerifRows(m consoleui.Mode) ([]VerifRow, int, bool) {
	mm, ok := m.(*mode)
	if !ok {
		return nil, 0, false
	}
	rows := make([]VerifRow, len(mm.view.lines))
	for i, l := range mm.view.lines {
		rows[i] = VerifRow{Ellipsis: len(l.ranges) == 0, Addr: uint64(l.addr)}
	}
	c := -1
	if mm.view.c != nil {
		c = mm.view.c.Value()
	}
	return rows, c, true
}

// VerifNewView is the memory view of a memory.
func VerifNewView(mem memory.Memory) view.View { return newMemoryView(mem) }
