//go:build verif

package linereader

import "io"

// VerifSetInput makes ReadLine read from rd (input injection for the /verif harness).
func VerifSetInput(rd io.Reader) { r = newLineReader(rd) }
