//go:build verif

package deps

// VerifSuccessors lists the instructions i has a forward dependency edge to
// (read-only view for the /verif conformance harness).
func VerifSuccessors(i Instruction) []Instruction {
	out := make([]Instruction, 0, len(i.depsFwd))
	for d := range i.depsFwd {
		out = append(out, wrapInstruction(d))
	}
	return out
}
