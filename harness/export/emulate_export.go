//go:build verif

package emulate

import (
	"mltwist/internal/consoleui"
	"mltwist/internal/consoleui/internal/lines"
	"mltwist/internal/consoleui/internal/view"
	"mltwist/internal/state"
	"mltwist/pkg/expr"
)

// VerifLineView returns the listing view of an emulate mode.
func VerifLineView(m consoleui.Mode) (*lines.View, bool) {
	e, ok := m.(*mode)
	if !ok {
		return nil, false
	}
	return e.lineView, true
}

// VerifReadValue reads one value of width w from the line reader (the emulator prompt parser).
func VerifReadValue(w expr.Width) (expr.Const, error) { return readValue(w) }

// VerifRegView is the register view of the emulate mode for a given state.
func VerifRegView(st *state.State) view.View { return newRegView(st) }

// VerifIP returns the emulated instruction pointer of an emulate mode.
func VerifIP(m consoleui.Mode) (uint64, bool) {
	e, ok := m.(*mode)
	if !ok {
		return 0, false
	}
	return uint64(e.emul.MustIP()), true
}

// VerifRegs returns the registers the emulator of an emulate mode knows (constant values as little endian bytes).
func VerifRegs(m consoleui.Mode) (map[string][]byte, bool) {
	e, ok := m.(*mode)
	if !ok {
		return nil, false
	}
	out := make(map[string][]byte)
	for k, v := range e.emul.State.Regs.Values() {
		if c, ok := v.(expr.Const); ok {
			out[string(k)] = append([]byte{}, c.Bytes()...)
		}
	}
	return out, true
}
