//go:build verif

// Package zzverifui is the /verif harness facade over the console UI: it sits
// below internal/consoleui so that it may import the UI's nested internal
// packages, and exposes plain data to the harness main package. It contains no
// expectations: it drives the real UI and reports what happened.
package zzverifui

import (
	"errors"
	"fmt"
	"io"
	"mltwist/internal/consoleui"
	"mltwist/internal/consoleui/disassemble"
	"mltwist/internal/consoleui/emulate"
	"mltwist/internal/consoleui/internal/linereader"
	"mltwist/internal/consoleui/internal/lines"
	"mltwist/internal/consoleui/internal/memview"
	"mltwist/internal/consoleui/internal/view"
	"mltwist/internal/deps"
	"mltwist/internal/riscv"
	"mltwist/internal/state"
	"mltwist/internal/state/memory"
	"mltwist/pkg/expr"
	"mltwist/pkg/model"
	"os"
	"runtime/debug"
	"strings"
)

type Session struct {
	UI   *consoleui.UI
	Code *deps.Code
}

// scripted input: the command line followed by filler lines; running out of
// input is reported by a sentinel panic (the UI would otherwise spin on EOF).
type script struct {
	data string
	pos  int
}

const exhausted = "harness: scripted input exhausted"

func (s *script) Read(p []byte) (int, error) {
	if s.pos >= len(s.data) {
		panic(exhausted)
	}
	n := copy(p, s.data[s.pos:])
	s.pos += n
	return n, nil
}

func NewSession(code *deps.Code, img []memory.ByteBlock) (*Session, error) {
	byteMem, err := memory.NewBytes(img)
	if err != nil {
		return nil, err
	}
	emulF := func(p *deps.Code, ip model.Addr) (consoleui.Mode, error) {
		m := memory.NewOverlay(byteMem, memory.NewSparse())
		stat := &state.State{Regs: state.NewRegMap(), Mems: memory.MemMap{riscv.MemoryKey: m}}
		return emulate.New(p, ip, stat)
	}
	ui, err := consoleui.New(disassemble.New(code, emulF))
	if err != nil {
		return nil, err
	}
	return &Session{UI: ui, Code: code}, nil
}

// NewMemSession is a UI whose only mode is a memory view of mem.
func NewMemSession(mem memory.Memory) (*Session, error) {
	ui, err := consoleui.New(memview.New(mem))
	if err != nil {
		return nil, err
	}
	return &Session{UI: ui}, nil
}

// LineTexts returns the full text of every line of the current listing.
func (s *Session) LineTexts() []string {
	v, ok := s.lineView()
	if !ok {
		return nil
	}
	out := make([]string, v.Lines.Len())
	for i := range out {
		out[i] = v.Lines.Index(i).String()
	}
	return out
}

// capture runs f with os.Stdout redirected to a file and returns what was
// written and the panic text (with the innermost mltwist frame), if any.
func capture(f func()) (out string, pmsg string) {
	tmp, err := os.CreateTemp("", "zzverif-out-*")
	if err != nil {
		panic(err)
	}
	old := os.Stdout
	os.Stdout = tmp
	func() {
		defer func() {
			if r := recover(); r != nil {
				pmsg = fmt.Sprintf("%v", r)
				if pmsg == "" {
					pmsg = "panic"
				}
				for _, l := range strings.Split(string(debug.Stack()), "\n") {
					l = strings.TrimSpace(l)
					if strings.HasPrefix(l, "/repo/") && !strings.Contains(l, "zzverif") && !strings.Contains(l, "zz_verif") {
						pmsg += " @" + strings.SplitN(strings.TrimPrefix(l, "/repo/"), " ", 2)[0]
						break
					}
				}
			}
		}()
		f()
	}()
	os.Stdout = old
	tmp.Seek(0, io.SeekStart)
	b, _ := io.ReadAll(tmp)
	tmp.Close()
	os.Remove(tmp.Name())
	return string(b), pmsg
}

type ExecResult struct {
	Outcome string // executed | error | quit | exhausted | eof | failed
	Panic   string
	Output  string
	Depth   int
	Mode    string
}

// Exec feeds one command line (plus filler lines answering every later prompt)
// to the real UI.processCommand.
func (s *Session) Exec(line string, filler string, nfill int) ExecResult {
	var sb strings.Builder
	sb.WriteString(line)
	sb.WriteByte('\n')
	for i := 0; i < nfill; i++ {
		sb.WriteString(filler)
		sb.WriteByte('\n')
	}
	linereader.VerifSetInput(&script{data: sb.String()})
	depth := s.UI.VerifDepth()
	var err error
	res := ExecResult{}
	res.Output, res.Panic = capture(func() { err = s.UI.VerifProcess() })
	res.Depth = s.UI.VerifDepth()
	_, res.Mode = s.UI.VerifMode()
	switch {
	case res.Panic == exhausted:
		res.Outcome, res.Panic = "exhausted", ""
	case res.Panic != "":
		res.Outcome = "panic"
	case err != nil && errors.Is(err, consoleui.ErrQuit):
		res.Outcome = "quit"
	case err != nil:
		res.Outcome = "failed"
		res.Output += "\n[returned error] " + err.Error()
	case res.Depth < depth:
		res.Outcome = "quit"
	case strings.Contains(res.Output, "error: "):
		res.Outcome = "error"
	default:
		res.Outcome = "executed"
	}
	return res
}

type LineTok struct {
	Kind  string `json:"kind"` // blank | header | instr
	Num   int    `json:"num"`  // header: block number shown
	Addr  string `json:"addr"` // header: start address shown (hex digits)
	Text  string `json:"text"` // instr: text shown
	Bytes string `json:"bytes"`
	Mark  string `json:"mark"`
}

func tokLine(l lines.Line) LineTok {
	v := l.String()
	t := LineTok{Mark: string(l.Mark())}
	switch {
	case v == "":
		t.Kind = "blank"
	case strings.HasPrefix(v, "Block "):
		t.Kind = "header"
		fmt.Sscanf(v, "Block %d: 0x%s", &t.Num, &t.Addr)
	default:
		t.Kind = "instr"
		if i := strings.LastIndex(v, " | "); i >= 0 {
			t.Text, t.Bytes = strings.TrimSpace(v[:i]), v[i+3:]
		} else {
			t.Text = strings.TrimSpace(v)
		}
	}
	return t
}

func toks(v *lines.View) []LineTok {
	out := make([]LineTok, v.Lines.Len())
	for i := range out {
		out[i] = tokLine(v.Lines.Index(i))
	}
	return out
}

func (s *Session) lineView() (*lines.View, bool) {
	m, _ := s.UI.VerifMode()
	if m == nil {
		return nil, false
	}
	if v, ok := disassemble.VerifView(m); ok {
		return v, true
	}
	if v, ok := emulate.VerifLineView(m); ok {
		return v, true
	}
	return nil, false
}

// Listing returns the current (incrementally maintained) listing and the cursor.
func (s *Session) Listing() ([]LineTok, int, bool) {
	v, ok := s.lineView()
	if !ok {
		return nil, -1, false
	}
	return toks(v), v.Cursor.Value(), true
}

// Fresh renders the current code from scratch.
func (s *Session) Fresh() []LineTok { return toks(lines.NewView(s.Code)) }

type MemRow struct {
	Ellipsis bool     `json:"ellipsis"`
	Addr     []int    `json:"addr"`
	Cells    []string `json:"cells"`
}

// MemRows returns the rows of the current memory view as data plus its rendered cells.
// The last result is the panic message of rendering the memory view ("" if it rendered).
func (s *Session) MemRows() ([]MemRow, int, bool, string) {
	m, _ := s.UI.VerifMode()
	if m == nil {
		return nil, -1, false, ""
	}
	rows, c, ok := memview.VerifRows(m)
	if !ok {
		return nil, -1, false, ""
	}
	out := make([]MemRow, len(rows))
	text, pmsg := capture(func() { m.View().Print(len(rows) + 8) })
	printed := strings.Split(text, "\n")
	// the view prints from a window around the cursor; rows are matched by their printed index
	byIdx := map[int]string{}
	for _, l := range printed {
		f := strings.Fields(strings.TrimPrefix(strings.TrimSpace(l), ">"))
		var idx int
		if len(f) > 0 {
			if _, err := fmt.Sscanf(f[0], "%d", &idx); err == nil {
				byIdx[idx] = l
			}
		}
	}
	for i, r := range rows {
		a := make([]int, 8)
		for k := 0; k < 8; k++ {
			a[k] = int(byte(r.Addr >> (8 * k)))
		}
		out[i] = MemRow{Ellipsis: r.Ellipsis, Addr: a, Cells: []string{}}
		if l, ok := byIdx[i]; ok && !r.Ellipsis {
			parts := strings.Split(l, "|")
			if len(parts) >= 3 {
				out[i].Cells = strings.Fields(parts[len(parts)-1])
			}
		}
	}
	return out, c, true, pmsg
}

// EmuIP returns the instruction pointer of the current mode if it is an emulate mode.
func (s *Session) EmuIP() (uint64, bool) {
	m, _ := s.UI.VerifMode()
	if m == nil {
		return 0, false
	}
	return emulate.VerifIP(m)
}

// EmuRegs returns the registers known to the emulator of the current mode if it is an emulate mode.
func (s *Session) EmuRegs() (map[string][]byte, bool) {
	m, _ := s.UI.VerifMode()
	if m == nil {
		return nil, false
	}
	return emulate.VerifRegs(m)
}

type RenderResult struct {
	N        int   // lines actually granted
	Shown    []int // line indices printed (first number of every printed line), in order
	Min, Max int
	Lines    int
	Panic    string
	Err      bool
	Output   string
}

func countLines(s string) int {
	n := strings.Count(s, "\n")
	if len(s) > 0 && !strings.HasSuffix(s, "\n") {
		n++
	}
	return n
}

// RelMin makes the next render grant "declared minimum + n" lines instead of n lines.
var RelMin bool

func renderView(v view.View, n int) RenderResult {
	r := RenderResult{}
	var err error
	r.Output, r.Panic = capture(func() {
		r.Min, r.Max = v.MinLines(), v.MaxLines()
		if RelMin {
			n += r.Min
		}
		r.N = n
		err = v.Print(n)
	})
	r.Err = err != nil
	r.Lines = countLines(r.Output)
	r.Shown = []int{}
	for _, l := range strings.Split(r.Output, "\n") {
		f := strings.Fields(strings.TrimPrefix(strings.TrimSpace(l), ">"))
		var idx int
		if len(f) > 1 && f[1] == "|" {
			if _, err := fmt.Sscanf(f[0], "%d", &idx); err == nil {
				r.Shown = append(r.Shown, idx)
			}
		}
	}
	return r
}

// Render prints the current mode's view with n granted lines.
func (s *Session) Render(n int) RenderResult {
	m, _ := s.UI.VerifMode()
	return renderView(m.View(), n)
}

// RenderParts renders the parts the tool composes: which = "regs" | "mem" | "regs+mem" | "mem+mem" | "list+regs"
func (s *Session) RenderParts(which string, st *state.State, mems []memory.Memory, n int) RenderResult {
	var vs []view.View
	for _, p := range strings.Split(which, "+") {
		switch p {
		case "regs":
			vs = append(vs, emulate.VerifRegView(st))
		case "mem":
			vs = append(vs, memview.VerifNewView(mems[len(vs)%len(mems)]))
		case "list":
			vs = append(vs, lines.NewView(s.Code))
		}
	}
	if len(vs) == 1 {
		return renderView(vs[0], n)
	}
	return renderView(view.NewComposite(vs...), n)
}

// ParseAddr / ReadValue / Format: pure helpers of the UI.
func ParseAddr(arg string) (val uint64, isErr bool, pmsg string) {
	_, pmsg = capture(func() {
		v, err := memview.VerifParseAddr(arg)
		if err != nil {
			isErr = true
			return
		}
		val = uint64(v.(model.Addr))
	})
	return
}

func ReadValue(line string, w int) (bs []byte, isErr bool, pmsg string) {
	linereader.VerifSetInput(&script{data: line + "\n"})
	_, pmsg = capture(func() {
		c, err := emulate.VerifReadValue(expr.Width(w))
		if err != nil {
			isErr = true
			return
		}
		bs = c.Bytes()
	})
	return
}

func Format(s string, indent, width int) (string, string) {
	var out string
	_, pmsg := capture(func() { out = consoleui.VerifFormat(s, indent, width) })
	return out, pmsg
}
