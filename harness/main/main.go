//go:build verif

// Command zzverif is the conformance harness of /verif. It contains no
// semantics: it builds inputs from JSON descriptions, calls the real mltwist
// code inside recover(), and serialises what came back, one ndjson event per
// call. The TLA+ specification is the only oracle.
package main

import (
	"bufio"
	"encoding/json"
	"fmt"
	"os"
	"runtime/debug"
	"sort"
	"strings"
)

func sortStrings(s []string) { sort.Strings(s) }

type handler func(raw json.RawMessage, emit func(any))

var families = map[string]handler{}

func register(name string, h handler) { families[name] = h }

// guard runs f and returns the panic text ("" if none).
func guard(f func()) (msg string) {
	defer func() {
		if r := recover(); r != nil {
			st := string(debug.Stack())
			msg = fmt.Sprintf("%v", r)
			if msg == "" {
				msg = "panic"
			}
			// keep the innermost mltwist frame as call site
			for _, l := range strings.Split(st, "\n") {
				l = strings.TrimSpace(l)
				if strings.HasPrefix(l, "/repo/") && !strings.Contains(l, "zzverif") && !strings.Contains(l, "zz_verif") {
					msg += " @" + strings.SplitN(strings.TrimPrefix(l, "/repo/"), " ", 2)[0]
					break
				}
			}
		}
	}()
	f()
	return ""
}

func main() {
	if len(os.Args) < 2 {
		fmt.Fprintln(os.Stderr, "usage: zzverif <family> < cases.ndjson > events.ndjson")
		os.Exit(2)
	}
	h, ok := families[os.Args[1]]
	if !ok {
		fmt.Fprintln(os.Stderr, "unknown family", os.Args[1])
		os.Exit(2)
	}
	in := bufio.NewReaderSize(os.Stdin, 1<<20)
	out := bufio.NewWriterSize(os.Stdout, 1<<20)
	defer out.Flush()
	enc := json.NewEncoder(out)
	emit := func(v any) {
		if err := enc.Encode(v); err != nil {
			fmt.Fprintln(os.Stderr, "encode:", err)
			os.Exit(2)
		}
	}
	dec := json.NewDecoder(in)
	for dec.More() {
		var raw json.RawMessage
		if err := dec.Decode(&raw); err != nil {
			fmt.Fprintln(os.Stderr, "decode:", err)
			os.Exit(2)
		}
		h(raw, emit)
	}
}
