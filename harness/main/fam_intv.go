//go:build verif

package main

import (
	"encoding/json"
	"mltwist/internal/state/interval"
)

type intvCase struct {
	Case string  `json:"case"`
	Op   string  `json:"op"` // newmap | union | complement | intersect
	T    string  `json:"t"`  // u64 | i64
	Base int     `json:"base"`
	A    [][]int `json:"a"`
	B    [][]int `json:"b"`
	Init [][][]int `json:"init"` // snew: the initial maps of a session
	X    int     `json:"x"`      // s<op>: indices of the argument maps
	Y    int     `json:"y"`
}

type intvEvent struct {
	intvCase
	Ivs   [][]int   `json:"ivs"`
	Maps  [][][]int `json:"maps"` // session ops: every map of the session re-read after the operation
	Panic string    `json:"panic"`
}

// a session keeps the Map values alive: an operation may neither change its arguments nor any earlier result
type intvSession[T int64 | uint64] struct {
	base T
	maps []interval.Map[T]
}

func (s *intvSession[T]) run(c intvCase, ev *intvEvent) {
	switch c.Op {
	case "snew":
		s.maps = nil
		for _, l := range c.Init {
			s.maps = append(s.maps, interval.NewMap(mkIntvs(l, s.base)...))
		}
	case "sunion":
		s.maps = append(s.maps, interval.MapUnion(s.maps[c.X], s.maps[c.Y]))
	case "scomplement":
		s.maps = append(s.maps, interval.MapComplement(s.maps[c.X], s.maps[c.Y]))
	case "sintersect":
		s.maps = append(s.maps, interval.MapIntersect(s.maps[c.X], s.maps[c.Y]))
	default:
		panic("harness: unknown interval session op " + c.Op)
	}
	ev.Maps = [][][]int{}
	for _, m := range s.maps {
		ev.Maps = append(ev.Maps, outIntvs(m, s.base))
	}
}

func mkIntvs[T int64 | uint64](l [][]int, base T) []interval.Interval[T] {
	r := make([]interval.Interval[T], len(l))
	for i, p := range l {
		r[i] = interval.New(base+T(p[0]), base+T(p[1]))
	}
	return r
}

func outIntvs[T int64 | uint64](m interval.Map[T], base T) [][]int {
	r := [][]int{}
	for _, iv := range m.Intervals() {
		r = append(r, []int{int(iv.Begin() - base), int(iv.End() - base)})
	}
	return r
}

func runIntv[T int64 | uint64](c intvCase, base T) [][]int {
	switch c.Op {
	case "newmap":
		return outIntvs(interval.NewMap(mkIntvs(c.A, base)...), base)
	case "union":
		return outIntvs(interval.MapUnion(interval.NewMap(mkIntvs(c.A, base)...), interval.NewMap(mkIntvs(c.B, base)...)), base)
	case "complement":
		return outIntvs(interval.MapComplement(interval.NewMap(mkIntvs(c.A, base)...), interval.NewMap(mkIntvs(c.B, base)...)), base)
	case "intersect":
		return outIntvs(interval.MapIntersect(interval.NewMap(mkIntvs(c.A, base)...), interval.NewMap(mkIntvs(c.B, base)...)), base)
	}
	panic("harness: unknown interval op " + c.Op)
}

var (
	sessI *intvSession[int64]
	sessU *intvSession[uint64]
)

func init() {
	register("intv", func(raw json.RawMessage, emit func(any)) {
		var c intvCase
		if err := json.Unmarshal(raw, &c); err != nil {
			panic(err)
		}
		if c.A == nil {
			c.A = [][]int{}
		}
		if c.B == nil {
			c.B = [][]int{}
		}
		if c.Init == nil {
			c.Init = [][][]int{}
		}
		ev := intvEvent{intvCase: c, Ivs: [][]int{}, Maps: [][][]int{}}
		if len(c.Op) > 0 && c.Op[0] == 's' {
			ev.Panic = guard(func() {
				if c.T == "i64" {
					if c.Op == "snew" {
						sessI = &intvSession[int64]{base: int64(c.Base)}
					}
					sessI.run(c, &ev)
				} else {
					bs := []uint64{0, 1<<32 - 3, 1<<63 - 4, ^uint64(0) - 63}
					if c.Op == "snew" {
						sessU = &intvSession[uint64]{base: bs[c.Base]}
					}
					sessU.run(c, &ev)
				}
			})
			emit(ev)
			return
		}
		ev.Panic = guard(func() {
			if c.T == "i64" {
				ev.Ivs = runIntv(c, int64(c.Base))
			} else {
				// bases: 0 -> 0, 1 -> 2^32-3, 2 -> 2^63-4, 3 -> 2^64-64
				bs := []uint64{0, 1<<32 - 3, 1<<63 - 4, ^uint64(0) - 63}
				ev.Ivs = runIntv(c, bs[c.Base])
			}
		})
		emit(ev)
	})
}
