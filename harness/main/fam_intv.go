//go:build verif

package main

import (
	"encoding/json"
	"mltwist/internal/state/interval"
)

type intvCase struct {
	Case string  `json:"case"`
	Op   string  `json:"op"` // newmap | union | complement | intersect
	T    string  `json:"t"`  // u64 | i64
	Base int     `json:"base"`
	A    [][]int `json:"a"`
	B    [][]int `json:"b"`
}

type intvEvent struct {
	intvCase
	Ivs   [][]int `json:"ivs"`
	Panic string  `json:"panic"`
}

func mkIntvs[T int64 | uint64](l [][]int, base T) []interval.Interval[T] {
	r := make([]interval.Interval[T], len(l))
	for i, p := range l {
		r[i] = interval.New(base+T(p[0]), base+T(p[1]))
	}
	return r
}

func outIntvs[T int64 | uint64](m interval.Map[T], base T) [][]int {
	r := [][]int{}
	for _, iv := range m.Intervals() {
		r = append(r, []int{int(iv.Begin() - base), int(iv.End() - base)})
	}
	return r
}

func runIntv[T int64 | uint64](c intvCase, base T) [][]int {
	switch c.Op {
	case "newmap":
		return outIntvs(interval.NewMap(mkIntvs(c.A, base)...), base)
	case "union":
		return outIntvs(interval.MapUnion(interval.NewMap(mkIntvs(c.A, base)...), interval.NewMap(mkIntvs(c.B, base)...)), base)
	case "complement":
		return outIntvs(interval.MapComplement(interval.NewMap(mkIntvs(c.A, base)...), interval.NewMap(mkIntvs(c.B, base)...)), base)
	case "intersect":
		return outIntvs(interval.MapIntersect(interval.NewMap(mkIntvs(c.A, base)...), interval.NewMap(mkIntvs(c.B, base)...)), base)
	}
	panic("harness: unknown interval op " + c.Op)
}

func init() {
	register("intv", func(raw json.RawMessage, emit func(any)) {
		var c intvCase
		if err := json.Unmarshal(raw, &c); err != nil {
			panic(err)
		}
		if c.A == nil {
			c.A = [][]int{}
		}
		if c.B == nil {
			c.B = [][]int{}
		}
		ev := intvEvent{intvCase: c, Ivs: [][]int{}}
		ev.Panic = guard(func() {
			if c.T == "i64" {
				ev.Ivs = runIntv(c, int64(c.Base))
			} else {
				// bases: 0 -> 0, 1 -> 2^32-3, 2 -> 2^63-4, 3 -> 2^64-64
				bs := []uint64{0, 1<<32 - 3, 1<<63 - 4, ^uint64(0) - 63}
				ev.Ivs = runIntv(c, bs[c.Base])
			}
		})
		emit(ev)
	})
}
