//go:build verif

package main

import (
	"encoding/json"
	"fmt"
	"mltwist/internal/consoleui/zzverifui"
	"mltwist/internal/deps"
	"mltwist/internal/elf"
	"mltwist/internal/parser"
	"mltwist/internal/state"
	"mltwist/internal/state/memory"
	"mltwist/pkg/expr"
	"mltwist/pkg/model"
	"sort"
	"strings"
	"time"
)

type literal struct {
	Sign   string `json:"sign"`
	Prefix string `json:"prefix"`
	Digits []int  `json:"digits"`
	Upper  bool   `json:"upper"`
	Raw    string `json:"raw"` // used instead of the structure when IsRaw
	IsRaw  bool   `json:"israw"`
}

func (l literal) String() string {
	if l.IsRaw {
		return l.Raw
	}
	const ds = "0123456789abcdefghijklmnopqrstuvwxyz"
	var sb strings.Builder
	sb.WriteString(l.Sign)
	sb.WriteString(l.Prefix)
	for _, d := range l.Digits {
		c := ds[d : d+1]
		if l.Upper {
			c = strings.ToUpper(c)
		}
		sb.WriteString(c)
	}
	return sb.String()
}

type uiCase struct {
	Case      string          `json:"case"`
	Op        string          `json:"op"` // uinew | cmd | render | parts | parseaddr | readvalue | format
	Base      []int           `json:"base"`
	Image     []emuBlock      `json:"image"`
	Data      []emuBlock      `json:"data"`
	Entry     int             `json:"entry"`
	Toks      []string        `json:"toks"`
	Seps      []int           `json:"seps"`
	Filler    string          `json:"filler"`
	N         int             `json:"n"`
	Rel       bool            `json:"rel"` // render / parts: grant "declared minimum + n" lines
	Which     string          `json:"which"`
	NRegs     int             `json:"nregs"`
	WithIP    bool            `json:"withip"`
	Stores    [][]int         `json:"stores"` // parts: [[off, len], ...] constant stores making the memory layout
	Lit       literal         `json:"lit"`
	W         int             `json:"w"`
	Text      []string        `json:"text"` // format: words; joined with single spaces (SepsT gives the number of spaces)
	SepsT     []int           `json:"sepst"`
	Indent    int             `json:"indent"`
	Width     int             `json:"width"`
	Args      json.RawMessage `json:"args"`      // structured description of the argument tokens (echoed for the specification)
	FillV     json.RawMessage `json:"fillv"`     // structured description of the line typed at value prompts (echoed)
	Pat       string          `json:"pat"`       // find: the literal pattern the command searches for ("" otherwise)
	MemStores []memStoreDesc  `json:"memstores"` // memnew: constant stores building the memory
	MemKind   string          `json:"memkind"`   // memnew: sparse | bytes | overlay | nil
}

type memStoreDesc struct {
	Addr  []int  `json:"addr"`
	Bytes []int  `json:"bytes"`
	Layer string `json:"layer"`
}

type blockDesc struct {
	Pos      int                 `json:"pos"`
	Begin    []int               `json:"begin"`
	BeginHex string              `json:"beginhex"`
	BeginOff int                 `json:"beginoff"` // begin - code base (-1 if outside 0..2^20)
	Ins      []zzverifui.LineTok `json:"ins"`
	Lo       []int               `json:"lo"` // the code's own move bounds of every instruction (inclusive indices)
	Up       []int               `json:"up"`
}

type uiEvent struct {
	uiCase
	Reset       bool   `json:"reset"`
	Err         bool   `json:"err"`
	Line        string `json:"line"`
	Outcome     string `json:"outcome"`
	Panic       string `json:"panic"`
	renderPanic string
	Output      string              `json:"output"`
	Depth       int                 `json:"depth"`
	Mode        string              `json:"modename"`
	HasList     bool                `json:"haslist"`
	Cursor      int                 `json:"cursor"`
	Listing     []zzverifui.LineTok `json:"listing"`
	Fresh       []zzverifui.LineTok `json:"fresh"`
	Proj        []blockDesc         `json:"proj"`
	EntryAt     []int               `json:"entryat"` // [block position, instruction index] of the entry point, or []
	HasMem      bool                `json:"hasmem"`
	MemRows     []zzverifui.MemRow  `json:"memrows"`
	MemCur      int                 `json:"memcur"`
	Min         int                 `json:"min"`
	Max         int                 `json:"max"`
	Lines       int                 `json:"lines"`
	Val         []int               `json:"val"`
	Hits        []int               `json:"hits"` // find: lines (before the command) whose text contains the literal pattern
	PreCur      int                 `json:"precur"`
	OutL        []string            `json:"outl"` // format: output lines
	FmtLines    []fmtLine           `json:"fmtlines"`
	SameChars   bool                `json:"samechars"`
	WLens       []int               `json:"wlens"`
	Hang        bool                `json:"hang"`
	Shown       []int               `json:"shown"`   // render: indices of the lines printed
	HasIP       bool                `json:"hasip"`   // emulate mode: the emulated instruction pointer is known
	IPOff       int                 `json:"ipoff"`   // ... as offset from the code base (-1: outside 0..2^20)
	EmuRegs     []regKV             `json:"emuregs"` // emulate mode: the registers the emulator knows, sorted by key
}

type regKV struct {
	Key string `json:"key"`
	Val []int  `json:"val"`
}

// fmtLine is one wrapped line measured: leading tabs, length of the rest, lengths of its space separated pieces
type fmtLine struct {
	Tabs   int   `json:"tabs"`
	Len    int   `json:"len"`
	Pieces []int `json:"pieces"`
}

func stripSpaces(s string) string {
	return strings.Map(func(r rune) rune {
		if r == ' ' || r == '\t' || r == '\n' {
			return -1
		}
		return r
	}, s)
}

type uiSession struct {
	s    *zzverifui.Session
	base uint64
}

func hexAddr(a uint64) string { return fmt.Sprintf("%x", a) }

func (u *uiSession) describe(ev *uiEvent) {
	s := u.s
	ev.Depth = s.UI.VerifDepth()
	_, ev.Mode = s.UI.VerifMode()
	if ip, ok := s.EmuIP(); ok {
		ev.HasIP = true
		ev.IPOff = -1
		if d := ip - u.base; d < 1<<20 {
			ev.IPOff = int(d)
		}
	}
	ev.EmuRegs = []regKV{}
	if rs, ok := s.EmuRegs(); ok {
		keys := make([]string, 0, len(rs))
		for k := range rs {
			keys = append(keys, k)
		}
		sort.Strings(keys)
		for _, k := range keys {
			ev.EmuRegs = append(ev.EmuRegs, regKV{Key: k, Val: ints(rs[k])})
		}
	}
	ev.Listing, ev.Cursor, ev.HasList = s.Listing()
	if ev.Listing == nil {
		ev.Listing = []zzverifui.LineTok{}
	}
	ev.Proj = []blockDesc{}
	ev.EntryAt = []int{}
	var rp string
	ev.MemRows, ev.MemCur, ev.HasMem, rp = s.MemRows()
	if ev.MemRows == nil {
		ev.MemRows = []zzverifui.MemRow{}
	}
	if rp != "" {
		// the memory view is drawn after every input line: a crash while drawing it is a crash of that line
		ev.renderPanic = "render: " + rp
	}
	if s.Code == nil {
		return
	}
	ev.Fresh = s.Fresh()
	for pos, b := range s.Code.Blocks() {
		bd := blockDesc{Pos: pos, Begin: le(uint64(b.Begin()), 8), BeginHex: hexAddr(uint64(b.Begin())), BeginOff: -1, Ins: []zzverifui.LineTok{}, Lo: []int{}, Up: []int{}}
		if d := uint64(b.Begin()) - u.base; d < 1<<20 {
			bd.BeginOff = int(d)
		}
		for _, in := range b.Instructions() {
			bs := []string{}
			for _, x := range in.Bytes() {
				bs = append(bs, fmt.Sprintf("%02X", x))
			}
			bd.Ins = append(bd.Ins, zzverifui.LineTok{Kind: "instr", Text: in.String(), Bytes: strings.Join(bs, " ")})
			bd.Lo = append(bd.Lo, b.LowerBound(in.Idx()))
			bd.Up = append(bd.Up, b.UpperBound(in.Idx()))
		}
		ev.Proj = append(ev.Proj, bd)
	}
	ev.EntryAt = []int{}
	if b, ok := s.Code.Address(s.Code.Entrypoint()); ok {
		if in, ok := b.Address(s.Code.Entrypoint()); ok {
			for pos, bb := range s.Code.Blocks() {
				if bb.Begin() == b.Begin() {
					ev.EntryAt = []int{pos, in.Idx()}
				}
			}
		}
	}
	ev.MemRows, ev.MemCur, ev.HasMem, rp = s.MemRows()
	if ev.MemRows == nil {
		ev.MemRows = []zzverifui.MemRow{}
	}
	if rp != "" {
		// the memory view is drawn after every input line: a crash while drawing it is a crash of that line
		ev.renderPanic = "render: " + rp
	}
}

func init() {
	var u *uiSession
	register("ui", func(raw json.RawMessage, emit func(any)) {
		var c uiCase
		if err := json.Unmarshal(raw, &c); err != nil {
			panic(err)
		}
		if c.Base == nil {
			c.Base = []int{}
		}
		if c.Image == nil {
			c.Image = []emuBlock{}
		}
		if c.Data == nil {
			c.Data = []emuBlock{}
		}
		if c.Toks == nil {
			c.Toks = []string{}
		}
		if c.Seps == nil {
			c.Seps = []int{}
		}
		if c.Stores == nil {
			c.Stores = [][]int{}
		}
		if c.Lit.Digits == nil {
			c.Lit.Digits = []int{}
		}
		if c.Text == nil {
			c.Text = []string{}
		}
		if c.SepsT == nil {
			c.SepsT = []int{}
		}
		if c.FillV == nil {
			c.FillV = json.RawMessage(`{"kind":"str","v":0}`)
		}
		if c.Args == nil {
			c.Args = json.RawMessage("[]")
		}
		if c.MemStores == nil {
			c.MemStores = []memStoreDesc{}
		}
		wl := []int{}
		for _, w := range c.Text {
			wl = append(wl, len(w))
		}
		ev := uiEvent{Shown: []int{}, WLens: wl, FmtLines: []fmtLine{}, Hits: []int{}, uiCase: c, Listing: []zzverifui.LineTok{}, Fresh: []zzverifui.LineTok{}, Proj: []blockDesc{}, EntryAt: []int{}, EmuRegs: []regKV{},
			MemRows: []zzverifui.MemRow{}, Val: []int{}, OutL: []string{}}
		switch c.Op {
		case "uinew":
			ev.Reset = true
			u = nil
			ev.Panic = guard(func() {
				base := baseOf(c.Base)
				addrs, bss := []model.Addr{}, [][]byte{}
				var img []memory.ByteBlock
				for _, b := range c.Image {
					addrs = append(addrs, model.Addr(base+uint64(b.Off)))
					bss = append(bss, bytesOf(b.Bytes))
					img = append(img, blockImpl{begin: model.Addr(base + uint64(b.Off)), bs: bytesOf(b.Bytes)})
				}
				for _, b := range c.Data {
					img = append(img, blockImpl{begin: model.Addr(base + uint64(b.Off)), bs: bytesOf(b.Bytes)})
				}
				mem, err := elf.VerifMemory(addrs, bss)
				if err != nil {
					ev.Err = true
					return
				}
				seq, err := parser.Parse(mem, rvParser(64, "MA"))
				if err != nil {
					ev.Err = true
					return
				}
				code, err := deps.NewCode(model.Addr(base+uint64(c.Entry)), seq)
				if err != nil {
					ev.Err = true
					return
				}
				s, err := zzverifui.NewSession(code, img)
				if err != nil {
					ev.Err = true
					return
				}
				u = &uiSession{s: s, base: base}
				u.describe(&ev)
			})
		case "memnew":
			ev.Reset = true
			u = nil
			ev.Panic = guard(func() {
				var mem memory.Memory
				sp, sp2 := memory.NewSparse(), memory.NewSparse()
				var blocks []memory.ByteBlock
				for _, st := range c.MemStores {
					a := model.Addr(baseOf(st.Addr))
					switch {
					case c.MemKind == "bytes" || (c.MemKind == "overlay" && st.Layer == "base"):
						blocks = append(blocks, blockImpl{begin: a, bs: bytesOf(st.Bytes)})
					case st.Layer == "base":
						sp2.Store(a, expr.NewConst(bytesOf(st.Bytes), expr.Width(len(st.Bytes))), expr.Width(len(st.Bytes)))
					default:
						sp.Store(a, expr.NewConst(bytesOf(st.Bytes), expr.Width(len(st.Bytes))), expr.Width(len(st.Bytes)))
					}
				}
				switch c.MemKind {
				case "sparse":
					mem = sp
				case "bytes":
					b, err := memory.NewBytes(blocks)
					if err != nil {
						ev.Err = true
						return
					}
					mem = b
				case "overlay":
					b, err := memory.NewBytes(blocks)
					if err != nil {
						ev.Err = true
						return
					}
					mem = memory.NewOverlay(b, sp)
				case "nil":
					mem = nil
				}
				s, err := zzverifui.NewMemSession(mem)
				if err != nil {
					ev.Err = true
					return
				}
				u = &uiSession{s: s}
				u.describe(&ev)
			})
			if ev.Panic == "" && ev.renderPanic != "" {
				ev.Panic = ev.renderPanic
				u = nil
			}
		case "cmd":
			if u == nil {
				break
			}
			ev.Hits = []int{}
			if lst, cur, ok := u.s.Listing(); ok {
				ev.PreCur = cur
				if c.Pat != "" {
					for i, h := range u.s.LineTexts() {
						if strings.Contains(h, c.Pat) {
							ev.Hits = append(ev.Hits, i)
						}
					}
				}
				_ = lst
			}
			var sb strings.Builder
			for i, t := range c.Toks {
				n := 1
				if i < len(c.Seps) {
					n = c.Seps[i]
				} else if i == 0 {
					n = 0
				}
				sb.WriteString(strings.Repeat(" ", n))
				sb.WriteString(t)
			}
			if len(c.Seps) > len(c.Toks) {
				sb.WriteString(strings.Repeat(" ", c.Seps[len(c.Toks)]))
			}
			ev.Line = sb.String()
			r := u.s.Exec(ev.Line, c.Filler, 200)
			ev.Outcome, ev.Panic, ev.Output = r.Outcome, r.Panic, r.Output
			if len(ev.Output) > 600 {
				ev.Output = ev.Output[:600]
			}
			if r.Depth == 0 || r.Outcome == "panic" {
				// the application has been left (or has crashed): the session is over
				ev.Depth = r.Depth
				u = nil
				break
			}
			ev.Panic = guard(func() { u.describe(&ev) })
			if ev.Panic == "" {
				ev.Panic = ev.renderPanic
			}
			if ev.Panic != "" {
				ev.Outcome = "panic"
				u = nil
			}
		case "render":
			if u == nil {
				break
			}
			zzverifui.RelMin = c.Rel
			r := u.s.Render(c.N)
			zzverifui.RelMin = false
			ev.N = r.N
			ev.Min, ev.Max, ev.Lines, ev.Panic, ev.Err = r.Min, r.Max, r.Lines, r.Panic, r.Err
			ev.Shown = r.Shown
			_, ev.Mode = u.s.UI.VerifMode()
		case "parts":
			ev.Panic = guard(func() {
				st := state.New()
				for i := 0; i < c.NRegs; i++ {
					st.Regs.Store(expr.NewKey(fmt.Sprintf("x%d", i+1)), expr.NewConstUint(uint64(i)*0x0101010101010101, expr.Width64), expr.Width64)
				}
				if c.WithIP {
					st.Regs.Store(expr.IPKey, expr.NewConstUint(uint64(0x1000), expr.Width64), expr.Width64)
				}
				m1, m2 := memory.NewSparse(), memory.NewSparse()
				for i, sx := range c.Stores {
					m := m1
					if i%2 == 1 {
						m = m2
					}
					m.Store(model.Addr(sx[0]), expr.NewConstUint(uint64(0xA1B2C3D4E5F60718), expr.Width64), expr.Width(sx[1]))
				}
				var sess *zzverifui.Session
				if u != nil {
					sess = u.s
				} else {
					sess = &zzverifui.Session{}
				}
				zzverifui.RelMin = c.Rel
				r := sess.RenderParts(c.Which, st, []memory.Memory{m1, m2}, c.N)
				zzverifui.RelMin = false
				ev.N = r.N
				ev.Min, ev.Max, ev.Lines, ev.Panic, ev.Err = r.Min, r.Max, r.Lines, r.Panic, r.Err
				if r.Panic != "" {
					panic(r.Panic)
				}
			})
		case "parseaddr":
			ev.Line = c.Lit.String()
			v, isErr, pm := zzverifui.ParseAddr(ev.Line)
			ev.Val, ev.Err, ev.Panic = le(v, 8), isErr, pm
		case "readvalue":
			ev.Line = c.Lit.String()
			bs, isErr, pm := zzverifui.ReadValue(ev.Line, c.W)
			ev.Val, ev.Err, ev.Panic = ints(bs), isErr, pm
			if pm == "harness: scripted input exhausted" {
				ev.Err, ev.Panic = true, ""
			}
		case "format":
			var sb strings.Builder
			for i, w := range c.Text {
				if i > 0 {
					n := 1
					if i-1 < len(c.SepsT) {
						n = c.SepsT[i-1]
					}
					sb.WriteString(strings.Repeat(" ", n))
				}
				sb.WriteString(w)
			}
			ev.Line = sb.String()
			done := make(chan struct{})
			var out, pm string
			go func() {
				out, pm = zzverifui.Format(ev.Line, c.Indent, c.Width)
				close(done)
			}()
			select {
			case <-done:
				ev.Panic = pm
				ev.OutL = strings.Split(out, "\n")
				if n := len(ev.OutL); n > 0 && ev.OutL[n-1] == "" {
					ev.OutL = ev.OutL[:n-1]
				}
				for _, l := range ev.OutL {
					rest := strings.TrimLeft(l, "\t")
					fl := fmtLine{Tabs: len(l) - len(rest), Len: len(rest), Pieces: []int{}}
					for _, f := range strings.Fields(rest) {
						fl.Pieces = append(fl.Pieces, len(f))
					}
					ev.FmtLines = append(ev.FmtLines, fl)
				}
				ev.SameChars = stripSpaces(out) == stripSpaces(ev.Line)
			case <-time.After(3 * time.Second):
				ev.Hang = true
			}
		default:
			panic("harness: unknown ui op " + c.Op)
		}
		emit(ev)
	})
}
