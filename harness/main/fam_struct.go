//go:build verif

package main

import (
	"encoding/json"
	"mltwist/internal/exprtransform"
	"mltwist/pkg/expr"
)

type structCase struct {
	Case  string `json:"case"`
	Op    string `json:"op"` // equal | find | replace | exprs | effapply
	Nodes []Node `json:"nodes"`
	A     int    `json:"a"`
	B     int    `json:"b"`
	Kind  string `json:"kind"` // find: c r b l m ; replace: name of the replacement function
	Eff   *Eff   `json:"eff,omitempty"`
	Effs  []Eff  `json:"effs"` // exprsmany: several effects
}

// results handed out by earlier calls of the process are kept alive and re-read after every later call
type keptSlice struct {
	what string
	xs   []expr.Expr
	snap string
}

var keptResults []keptSlice

func snapExprs(xs []expr.Expr) string {
	out := ""
	for _, x := range xs {
		out += exprJSON(x) + ";"
	}
	return out
}

func keep(what string, xs []expr.Expr) {
	if len(keptResults) > 64 {
		keptResults = keptResults[32:]
	}
	keptResults = append(keptResults, keptSlice{what: what, xs: xs, snap: snapExprs(xs)})
}

func keptChanged() string {
	for _, k := range keptResults {
		if snapExprs(k.xs) != k.snap {
			return k.what
		}
	}
	return ""
}

type structEvent struct {
	structCase
	Res    bool   `json:"res"`
	Found  []int  `json:"found"`
	Out    int    `json:"out"`
	OutEff Eff    `json:"outeff"`
	ONodes []Node `json:"onodes"` // input table extended by the outputs (same hash-consing)
	Same   bool   `json:"same"`   // replace: the result is the very same tree (structurally) as the input
	RetMut string `json:"retmut"` // a result returned by an earlier call has changed (which one)
	Panic  string `json:"panic"`
}

func replaceNamed(name string, e expr.Expr) expr.Expr {
	switch name {
	case "r":
		return exprtransform.ReplaceAll(e, func(c expr.RegLoad) (expr.Expr, bool) {
			if c.Key() != "r1" {
				return nil, false
			}
			return expr.NewConst([]byte{7}, c.Width()), true
		})
	case "c":
		return exprtransform.ReplaceAll(e, func(c expr.Const) (expr.Expr, bool) {
			for _, b := range c.Bytes() {
				if b != 0 {
					return nil, false
				}
			}
			return expr.NewConst([]byte{9}, c.Width()), true
		})
	case "b":
		return exprtransform.ReplaceAll(e, func(c expr.Binary) (expr.Expr, bool) {
			if c.Op() != expr.Add {
				return nil, false
			}
			return expr.NewBinary(expr.Nand, c.Arg1(), c.Arg2(), c.Width()), true
		})
	case "m":
		return exprtransform.ReplaceAll(e, func(c expr.MemLoad) (expr.Expr, bool) {
			if c.Key() != "m1" {
				return nil, false
			}
			return expr.NewRegLoad("rm", c.Width()), true
		})
	case "l":
		return exprtransform.ReplaceAll(e, func(c expr.Less) (expr.Expr, bool) {
			return c.ExprTrue(), true
		})
	case "none":
		return exprtransform.ReplaceAll(e, func(c expr.RegLoad) (expr.Expr, bool) { return nil, false })
	}
	panic("harness: unknown replacement " + name)
}

func buildEff(es []expr.Expr, e *Eff) expr.Effect {
	if e.E == "reg" {
		return expr.NewRegStore(es[e.V], expr.NewKey(e.N), expr.Width(e.W))
	}
	return expr.NewMemStore(es[e.V], expr.NewKey(e.N), es[e.A], expr.Width(e.W))
}

func init() {
	register("struct", func(raw json.RawMessage, emit func(any)) {
		var c structCase
		if err := json.Unmarshal(raw, &c); err != nil {
			panic(err)
		}
		es := Build(c.Nodes)
		if c.Effs == nil {
			c.Effs = []Eff{}
		}
		ev := structEvent{structCase: c, Found: []int{}, ONodes: []Node{}}
		d := NewDag()
		for i := 1; i < len(es); i++ { // re-intern the inputs: indices stay the same because the table is hash-consed
			if d.Add(es[i]) != i {
				panic("harness: input table is not hash-consed in topological order")
			}
		}
		ev.Panic = guard(func() {
			switch c.Op {
			case "equal":
				ev.Res = exprtransform.Equal(es[c.A], es[c.B])
			case "find":
				var fs []expr.Expr
				switch c.Kind {
				case "c":
					for _, x := range exprtransform.FindAll[expr.Const](es[c.A]) {
						fs = append(fs, x)
					}
				case "r":
					for _, x := range exprtransform.FindAll[expr.RegLoad](es[c.A]) {
						fs = append(fs, x)
					}
				case "b":
					for _, x := range exprtransform.FindAll[expr.Binary](es[c.A]) {
						fs = append(fs, x)
					}
				case "l":
					for _, x := range exprtransform.FindAll[expr.Less](es[c.A]) {
						fs = append(fs, x)
					}
				case "m":
					for _, x := range exprtransform.FindAll[expr.MemLoad](es[c.A]) {
						fs = append(fs, x)
					}
				}
				for _, x := range fs {
					ev.Found = append(ev.Found, d.Add(x))
				}
			case "replace":
				out := replaceNamed(c.Kind, es[c.A])
				ev.Out = d.Add(out)
			case "exprs":
				xs := exprtransform.Exprs(buildEff(es, c.Eff))
				for _, x := range xs {
					ev.Found = append(ev.Found, d.Add(x))
				}
				keep("result of Exprs in "+c.Case, xs)
			case "exprsmany":
				var effs []expr.Effect
				for i := range c.Effs {
					effs = append(effs, buildEff(es, &c.Effs[i]))
				}
				xs := exprtransform.ExprsMany(effs)
				for _, x := range xs {
					ev.Found = append(ev.Found, d.Add(x))
				}
				keep("result of ExprsMany in "+c.Case, xs)
			case "effapply":
				out := exprtransform.EffectApply(buildEff(es, c.Eff), func(e expr.Expr) expr.Expr {
					return expr.NewBinary(expr.Add, e, expr.Zero, e.Width())
				})
				ev.OutEff = d.AddEffect(out)
			default:
				panic("harness: unknown struct op " + c.Op)
			}
		})
		ev.RetMut = keptChanged()
		ev.ONodes = d.Nodes
		if ev.ONodes == nil {
			ev.ONodes = []Node{}
		}
		emit(ev)
	})
}
