//go:build verif

package main

import (
	"encoding/json"
	"mltwist/internal/elf"
	"mltwist/internal/parser"
	"mltwist/internal/riscv"
	"mltwist/pkg/expr"
	"mltwist/pkg/model"
	"sort"
	"strings"
)

type rvCase struct {
	Case    string          `json:"case"`
	Op      string          `json:"op"` // parse | sweep
	Mode    string          `json:"mode"`
	Variant int             `json:"variant"` // 32 | 64
	Exts    string          `json:"exts"`    // "", "M", "A", "MA"
	Addr    []int           `json:"addr"`    // 8 bytes little endian
	Bytes   []int           `json:"bytes"`
	States  json.RawMessage `json:"states,omitempty"`
	Lo      int             `json:"lo"`
	Image   []emuBlock      `json:"image"` // sweep: words with bits 24..31 == Lo
}

type rvSum struct {
	Name  string `json:"name"`
	Count int    `json:"count"`
	And   []int  `json:"and"`
	Or    []int  `json:"or"`
}

type codeIns struct {
	Off    int             `json:"off"`
	Bytes  []int           `json:"bytes"`
	Nodes  []Node          `json:"nodes"`
	Effs   []Eff           `json:"effs"`
	Keys   []string        `json:"keys"`
	Name   string          `json:"lname"`
	States json.RawMessage `json:"states,omitempty"`
	CsrKey string          `json:"csrkey"`
}

type rvEvent struct {
	Ins   []codeIns `json:"ins"`
	Names []rvSum `json:"names"`
	rvCase
	Err     bool     `json:"err"`
	Name    string   `json:"name"`
	LName   string   `json:"lname"`
	ByteLen int      `json:"bytelen"`
	IType   int      `json:"itype"`
	Nodes   []Node   `json:"nodes"`
	Effs    []Eff    `json:"effs"`
	Text    string   `json:"text"`
	Toks    []string `json:"toks"`
	Paren   bool     `json:"paren"`
	Keys    []string `json:"keys"`
	MemKeys []string `json:"memkeys"`
	Panic   string   `json:"panic"`
}

var rvParsers = map[string]riscv.Parser{}

func rvParser(variant int, exts string) riscv.Parser {
	k := string(rune('0'+variant/32)) + exts
	if p, ok := rvParsers[k]; ok {
		return p
	}
	v := riscv.Variant32
	if variant == 64 {
		v = riscv.Variant64
	}
	var es []riscv.Extension
	if strings.Contains(exts, "M") {
		es = append(es, riscv.ExtM)
	}
	if strings.Contains(exts, "A") {
		es = append(es, riscv.ExtA)
	}
	p := riscv.NewParser(v, es...)
	rvParsers[k] = p
	return p
}

// tokenise splits "name a, b, imm(c)" into its words; the only knowledge used
// is the assembler punctuation (space, comma, parentheses).
func tokenise(text string) ([]string, bool) {
	paren := false
	f := strings.FieldsFunc(text, func(r rune) bool {
		if r == '(' || r == ')' {
			paren = true
			return true
		}
		return r == ' ' || r == ','
	})
	if f == nil {
		f = []string{}
	}
	return f, paren
}

func keysOf(nodes []Node, effs []Eff) ([]string, []string) {
	rk, mk := map[string]bool{}, map[string]bool{}
	for _, n := range nodes {
		if n.K == "r" {
			rk[n.N] = true
		}
		if n.K == "m" {
			mk[n.N] = true
		}
	}
	for _, e := range effs {
		if e.E == "reg" {
			rk[e.N] = true
		} else {
			mk[e.N] = true
		}
	}
	r, m := []string{}, []string{}
	for k := range rk {
		r = append(r, k)
	}
	for k := range mk {
		m = append(m, k)
	}
	sort.Strings(r)
	sort.Strings(m)
	return r, m
}

func describeIns(ins model.Instruction, ev *rvEvent) {
	ev.Name = ins.Details.Name()
	ev.LName = strings.ToLower(ev.Name)
	ev.ByteLen = int(ins.ByteLen)
	ev.IType = int(ins.Type)
	d := NewDag()
	ev.Effs = d.AddEffects(ins.Effects)
	ev.Nodes = d.Nodes
	if ev.Nodes == nil {
		ev.Nodes = []Node{}
	}
	ev.Text = ins.Details.String()
	ev.Toks, ev.Paren = tokenise(ev.Text)
	ev.Keys, ev.MemKeys = keysOf(ev.Nodes, ev.Effs)
}

func init() {
	register("rv", func(raw json.RawMessage, emit func(any)) {
		var c rvCase
		if err := json.Unmarshal(raw, &c); err != nil {
			panic(err)
		}
		if c.Bytes == nil {
			c.Bytes = []int{}
		}
		if c.Addr == nil {
			c.Addr = []int{}
		}
		ev := rvEvent{Ins: []codeIns{}, Names: []rvSum{}, rvCase: c, Nodes: []Node{}, Effs: []Eff{}, Toks: []string{}, Keys: []string{}, MemKeys: []string{}}
		if c.Image == nil {
			c.Image = []emuBlock{}
			ev.Image = c.Image
		}
		if c.Op == "codeparse" {
			ev.Panic = guard(func() {
				base := baseOf(c.Addr)
				addrs, bss := []model.Addr{}, [][]byte{}
				for _, b := range c.Image {
					addrs = append(addrs, model.Addr(base+uint64(b.Off)))
					bss = append(bss, bytesOf(b.Bytes))
				}
				mem, err := elf.VerifMemory(addrs, bss)
				if err != nil {
					panic("harness: overlapping code blocks")
				}
				ins, err := parser.Parse(mem, rvParser(c.Variant, c.Exts))
				if err != nil {
					ev.Err = true
					return
				}
				for _, in := range ins {
					d := NewDag()
					effs := d.AddEffects(in.Effects)
					nodes := d.Nodes
					if nodes == nil {
						nodes = []Node{}
					}
					keys, _ := keysOf(nodes, effs)
					ev.Ins = append(ev.Ins, codeIns{Off: int(uint64(in.Addr) - base), Bytes: ints(in.Bytes), Nodes: nodes, Effs: effs,
						Keys: keys, Name: strings.ToLower(in.Details.Name())})
				}
			})
			emit(ev)
			return
		}
		if c.Op == "sweep" {
			// all 2^24 words whose top byte is c.Lo, through the real Parse
			ev.Panic = guard(func() {
				p := rvParser(c.Variant, c.Exts)
				type agg struct {
					n       int
					and, or uint32
				}
				sums := map[string]*agg{}
				var buf [4]byte
				for lo := uint32(0); lo < 1<<24; lo++ {
					w := uint32(c.Lo)<<24 | lo
					buf[0], buf[1], buf[2], buf[3] = byte(w), byte(w>>8), byte(w>>16), byte(w>>24)
					ins, err := p.Parse(model.Addr(0x1000), buf[:])
					if err != nil {
						continue
					}
					name := strings.ToLower(ins.Details.Name())
					a := sums[name]
					if a == nil {
						a = &agg{and: ^uint32(0)}
						sums[name] = a
					}
					a.n++
					a.and &= w
					a.or |= w
				}
				names := []string{}
				for k := range sums {
					names = append(names, k)
				}
				sort.Strings(names)
				ev.Names = []rvSum{}
				for _, k := range names {
					a := sums[k]
					ev.Names = append(ev.Names, rvSum{Name: k, Count: a.n,
						And: []int{int(a.and & 255), int(a.and >> 8 & 255), int(a.and >> 16 & 255), int(a.and >> 24)},
						Or:  []int{int(a.or & 255), int(a.or >> 8 & 255), int(a.or >> 16 & 255), int(a.or >> 24)}})
				}
			})
			emit(ev)
			return
		}
		ev.Panic = guard(func() {
			p := rvParser(c.Variant, c.Exts)
			ins, err := p.Parse(model.Addr(baseOf(c.Addr)), bytesOf(c.Bytes))
			if err != nil {
				ev.Err = true
				return
			}
			describeIns(ins, &ev)
		})
		emit(ev)
	})
	_ = expr.Zero
}
