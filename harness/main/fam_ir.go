//go:build verif

package main

import (
	"encoding/json"
	"mltwist/internal/exprtransform"
	"mltwist/pkg/expr"
	"mltwist/pkg/expr/exprtools"
)

type irCase struct {
	Case  string          `json:"case"`
	Op    string          `json:"op"`
	Nodes []Node          `json:"nodes"`
	Root  int             `json:"root"`
	Args  []int           `json:"args,omitempty"`
	W     int             `json:"w,omitempty"`
	G     string          `json:"g,omitempty"`
	Bit   int             `json:"bit,omitempty"`
	Envs  json.RawMessage `json:"envs,omitempty"`
	O     int             `json:"o,omitempty"`
	X     []int           `json:"x,omitempty"`
}

type irEvent struct {
	O      int             `json:"o"`
	X      []int           `json:"x"`
	Res    [][]int         `json:"res"`
	Case   string          `json:"case"`
	Op     string          `json:"op"`
	Nodes  []Node          `json:"nodes"`
	In     int             `json:"inp"`
	Args   []int           `json:"args"`
	Out    int             `json:"out"`
	Out2   int             `json:"out2"`
	Outs   []int           `json:"outs"`
	W      int             `json:"w"`
	G      string          `json:"g"`
	Bit    int             `json:"bit"`
	Envs   json.RawMessage `json:"envs"`
	Panic  string          `json:"panic"`
	Inmut  bool            `json:"inmut"` // input expression changed by the call
}

func init() { register("ir", irHandler) }

func foldExpr(e expr.Expr) expr.Expr { return exprtransform.ConstFold(e) }

func gadget(name string, a []expr.Expr, w expr.Width, bit int) expr.Expr {
	switch name {
	case "Negate":
		return exprtools.Negate(a[0], w)
	case "Sub":
		return exprtools.Sub(a[0], a[1], w)
	case "Abs":
		return exprtools.Abs(a[0], w)
	case "Ones":
		return exprtools.Ones(w)
	case "Mod":
		return exprtools.Mod(a[0], a[1], w)
	case "SignedMul":
		return exprtools.SignedMul(a[0], a[1], w)
	case "SignedDiv":
		return exprtools.SignedDiv(a[0], a[1], w)
	case "SignedMod":
		return exprtools.SignedMod(a[0], a[1], w)
	case "SignExtend":
		return exprtools.SignExtend(a[0], a[1], w)
	case "RshA":
		return exprtools.RshA(a[0], a[1], w)
	case "BitNot":
		return exprtools.BitNot(a[0], w)
	case "BitAnd":
		return exprtools.BitAnd(a[0], a[1], w)
	case "BitOr":
		return exprtools.BitOr(a[0], a[1], w)
	case "BitXor":
		return exprtools.BitXor(a[0], a[1], w)
	case "Bool":
		return exprtools.Bool(a[0])
	case "Not":
		return exprtools.Not(a[0])
	case "BoolCond":
		return exprtools.BoolCond(a[0], a[1], a[2], w)
	case "Eq":
		return exprtools.Eq(a[0], a[1], a[2], a[3], w)
	case "Lts":
		return exprtools.Lts(a[0], a[1], a[2], a[3], w)
	case "Leu":
		return exprtools.Leu(a[0], a[1], a[2], a[3], w)
	case "Les":
		return exprtools.Les(a[0], a[1], a[2], a[3], w)
	case "MaskBits":
		return exprtools.MaskBits(a[0], exprtools.BitCnt(bit), w)
	case "IntNegative":
		return exprtools.IntNegative(a[0], w)
	case "WidthGadget":
		return exprtools.NewWidthGadget(a[0], w)
	}
	panic("harness: unknown gadget " + name)
}

func irHandler(raw json.RawMessage, emit func(any)) {
	var c irCase
	if err := json.Unmarshal(raw, &c); err != nil {
		panic(err)
	}
	es := Build(c.Nodes)
	d := NewDag()
	ev := irEvent{Case: c.Case, Op: c.Op, W: c.W, G: c.G, Bit: c.Bit, Envs: c.Envs, Args: []int{}, Outs: []int{},
		O: c.O, X: c.X, Res: [][]int{}, Nodes: []Node{}}
	if ev.X == nil {
		ev.X = []int{}
	}
	if c.Op == "optable" {
		// one operation on constants, first operand fixed, second operand all 256 byte values
		ev.Panic = guard(func() {
			x := expr.NewConst(bytesOf(c.X), expr.Width(len(c.X)))
			for y := 0; y < 256; y++ {
				yc := expr.NewConst([]byte{byte(y)}, expr.Width8)
				var e expr.Expr
				if c.O == 0 {
					e = expr.NewLess(x, yc, expr.NewConst([]byte{1}, 1), expr.NewConst([]byte{2}, 1), expr.Width(c.W))
				} else {
					e = expr.NewBinary(expr.BinaryOp(c.O), x, yc, expr.Width(c.W))
				}
				r, ok := exprtransform.ConstFold(e).(expr.Const)
				if !ok {
					panic("harness: folding an operation on constants did not give a constant")
				}
				ev.Res = append(ev.Res, ints(r.Bytes()))
			}
		})
		emit(ev)
		return
	}
	var in expr.Expr
	if c.Root > 0 {
		in = es[c.Root]
		ev.In = d.Add(in)
	}
	args := make([]expr.Expr, len(c.Args))
	for i, a := range c.Args {
		args[i] = es[a]
		ev.Args = append(ev.Args, d.Add(es[a]))
	}
	before, _ := json.Marshal(d.Nodes)
	var out, out2 expr.Expr
	var outs []expr.Expr
	ev.Panic = guard(func() {
		switch c.Op {
		case "fold":
			out = exprtransform.ConstFold(in)
			out2 = exprtransform.ConstFold(out)
		case "setwidth":
			out = exprtransform.SetWidth(in, expr.Width(c.W))
		case "purge":
			out = exprtransform.PurgeWidthGadgets(in)
			out2 = exprtransform.PurgeWidthGadgets(out)
		case "poss":
			outs = exprtransform.Possibilities(in)
		case "gadget":
			out = gadget(c.G, args, expr.Width(c.W), c.Bit)
			out2 = exprtransform.ConstFold(out)
		default:
			panic("harness: unknown ir op " + c.Op)
		}
	})
	// immutability of the inputs: re-serialise them into a fresh table
	d2 := NewDag()
	if in != nil {
		d2.Add(in)
	}
	for _, a := range args {
		d2.Add(a)
	}
	after, _ := json.Marshal(d2.Nodes)
	ev.Inmut = string(before) != string(after)
	if ev.Panic == "" {
		ev.Panic = guard(func() {
			if out != nil {
				ev.Out = d.Add(out)
			}
			if out2 != nil {
				ev.Out2 = d.Add(out2)
			}
			for _, o := range outs {
				ev.Outs = append(ev.Outs, d.Add(o))
			}
		})
	}
	ev.Nodes = d.Nodes
	emit(ev)
}
