//go:build verif

package main

import (
	"mltwist/internal/exprtransform"
	"encoding/json"
	"fmt"
	"mltwist/internal/state"
	"mltwist/internal/state/interval"
	"mltwist/internal/state/memory"
	"mltwist/pkg/expr"
	"mltwist/pkg/model"
)

// memCase is one operation of a memory history. Addresses are offsets from a
// 64 bit window base chosen by the "new" operation; the harness adds and
// subtracts the base and does nothing else with addresses.
type memCase struct {
	Case     string          `json:"case"`
	Op       string          `json:"op"`
	Kind     string          `json:"kind"`     // sparse | bytes | overlay
	BaseKind string          `json:"basekind"` // bytes | sparse (overlay only)
	Base     []int           `json:"base,omitempty"`     // window base, 8 bytes little endian
	N        int             `json:"n"`
	Blocks   []memBlock      `json:"blocks"` // initial byte blocks (bytes kind / bytes base)
	Envs     json.RawMessage `json:"envs,omitempty"`
	Layer    string          `json:"layer"`
	Off      int             `json:"off"`
	W        int             `json:"w"`
	Val      *Node           `json:"val,omitempty"` // leaf: constant or register load
	Key      string          `json:"key"`
	Nodes    []Node          `json:"nodes,omitempty"`
	Addr     int             `json:"addr"`
	Value    int             `json:"value"`
	Eff      string          `json:"eff"`
}

type memBlock struct {
	Off   int   `json:"off"`
	Bytes []int `json:"bytes"`
}

type memEvent struct {
	memCase
	Reset   bool    `json:"reset"`
	Ok      bool    `json:"ok"`
	Err     bool    `json:"err"`
	Ret     int     `json:"ret"`
	RNodes  []Node  `json:"rnodes"`
	Ivs     [][]int `json:"ivs"`
	Outside bool    `json:"outside"`
	Panic   string  `json:"panic"`
	Mut     string  `json:"mut"`
	BaseMut bool    `json:"basemut"`
	Changed bool    `json:"changed"`
	Applied bool    `json:"applied"`
}

type tracked struct {
	what string
	snap string
	get  func() string
}

type blockImpl struct {
	begin model.Addr
	bs    []byte
}

func (b blockImpl) Begin() model.Addr { return b.begin }
func (b blockImpl) Bytes() []byte     { return b.bs }

type memSession struct {
	base    uint64
	mem     memory.Memory
	lower   memory.Memory // base layer of an overlay
	tracked []tracked
	basePrj string
	st      *state.State
}

func exprJSON(e expr.Expr) string {
	d := NewDag()
	r := d.Add(e)
	b, _ := json.Marshal(struct {
		N []Node
		R int
	}{d.Nodes, r})
	return string(b)
}

func (s *memSession) track(what string, get func() string) {
	s.tracked = append(s.tracked, tracked{what: what, snap: get(), get: get})
}

func (s *memSession) mutated() string {
	for _, t := range s.tracked {
		if t.get() != t.snap {
			return t.what
		}
	}
	return ""
}

// projection of a memory: its blocks and, per block, the loaded content (in
// pieces of at most 8 bytes); only used to detect changes.
func memProjection(m memory.Memory) string {
	out := ""
	for _, iv := range m.Blocks().Intervals() {
		out += fmt.Sprintf("[%d,%d)", iv.Begin(), iv.End())
		for a := iv.Begin(); a < iv.End(); a++ {
			e, ok := m.Load(a, 1)
			if ok {
				out += exprJSON(e)
			} else {
				out += "?"
			}
		}
	}
	return out
}

// farOff: offsets from farOff on denote a second window 2^63 bytes behind the first one (blocks and accesses that are
// as far apart as the address space allows); the specification just sees larger offsets
const farOff = 128

func (s *memSession) at(off int) model.Addr {
	if off >= farOff {
		return model.Addr(s.base + 1<<63 + uint64(off-farOff))
	}
	return model.Addr(s.base + uint64(off))
}

func (s *memSession) offOf(a uint64) uint64 {
	d := a - s.base
	if d >= 1<<63 && d < 1<<63+farOff {
		return d - 1<<63 + farOff
	}
	return d
}

func (s *memSession) ivs(m interval.Map[model.Addr]) ([][]int, bool) {
	r := [][]int{}
	outside := false
	for _, iv := range m.Intervals() {
		lo, hi := s.offOf(uint64(iv.Begin())), s.offOf(uint64(iv.End()))
		if lo > 1<<20 || hi > 1<<20 {
			outside = true
			lo, hi = 1<<20, 1<<20
		}
		r = append(r, []int{int(lo), int(hi)})
	}
	return r, outside
}

func leafExpr(n *Node) expr.Expr {
	return Build([]Node{*n})[1]
}

func baseOf(bs []int) uint64 {
	var v uint64
	for i := len(bs) - 1; i >= 0; i-- {
		v = v<<8 | uint64(byte(bs[i]))
	}
	return v
}

func (s *memSession) newBytes(blocks []memBlock, ev *memEvent) (*memory.Bytes, bool) {
	bb := make([]memory.ByteBlock, len(blocks))
	for i, b := range blocks {
		bs := bytesOf(b.Bytes)
		bb[i] = blockImpl{begin: s.at(b.Off), bs: bs}
		s.track(fmt.Sprintf("initial block %d", i), func() string { return fmt.Sprint(bs) })
	}
	m, err := memory.NewBytes(bb)
	if err != nil {
		ev.Err = true
		return nil, false
	}
	return m, true
}

func init() {
	var s *memSession
	register("mem", func(raw json.RawMessage, emit func(any)) {
		var c memCase
		if err := json.Unmarshal(raw, &c); err != nil {
			panic(err)
		}
		if c.Blocks == nil {
			c.Blocks = []memBlock{}
		}
		ev := memEvent{memCase: c, Ivs: [][]int{}, RNodes: []Node{}}
		if c.Op != "new" && (s == nil || s.mem == nil) {
			emit(ev) // construction failed: nothing to call
			return
		}
		ev.Panic = guard(func() {
			switch c.Op {
			case "new":
				ev.Reset = true
				s = &memSession{base: baseOf(c.Base)}
				switch c.Kind {
				case "sparse":
					s.mem = memory.NewSparse()
				case "bytes":
					m, ok := s.newBytes(c.Blocks, &ev)
					if ok {
						s.mem = m
					} else {
						s.mem = nil
					}
				case "overlay":
					if c.BaseKind == "bytes" {
						m, ok := s.newBytes(c.Blocks, &ev)
						if !ok {
							s.mem = nil
							return
						}
						s.lower = m
					} else {
						s.lower = memory.NewSparse()
					}
					s.mem = memory.NewOverlay(s.lower, memory.NewSparse())
				default:
					panic("harness: unknown memory kind " + c.Kind)
				}
			case "store":
				if c.Val != nil && c.Val.K == "basecopy" {
					// the value is whatever the base layer (of an overlay; else the memory itself) holds there now, as
					// a constant - "writing back the original bytes"; zeros when the range is not fully known
					src := s.mem
					if s.lower != nil {
						src = s.lower
					}
					bs := make([]int, c.W)
					if e, ok := src.Load(s.at(c.Off), expr.Width(c.W)); ok {
						if cst, isConst := exprtransform.ConstFold(e).(expr.Const); isConst {
							bs = ints(cst.WithWidth(expr.Width(c.W)).Bytes())
						}
					}
					c.Val = &Node{K: "c", W: c.W, B: bs}
					ev.memCase.Val = c.Val
				}
				v := leafExpr(c.Val)
				s.track(fmt.Sprintf("stored value %s", exprJSON(v)), func() string { return exprJSON(v) })
				m := s.mem
				if c.Layer == "base" {
					m = s.lower
				}
				m.Store(s.at(c.Off), v, expr.Width(c.W))
			case "load":
				e, ok := s.mem.Load(s.at(c.Off), expr.Width(c.W))
				ev.Ok = ok
				if ok {
					d := NewDag()
					ev.Ret = d.Add(e)
					ev.RNodes = d.Nodes
					s.track(fmt.Sprintf("value returned by load(%d,%d)", c.Off, c.W), func() string { return exprJSON(e) })
				}
			case "missing":
				mm := s.mem.Missing(s.at(c.Off), expr.Width(c.W))
				ev.Ivs, ev.Outside = s.ivs(mm)
				// the map handed out stays what it was (it is kept and re-read after every later operation)
				s.track(fmt.Sprintf("map returned by missing(%d,%d)", c.Off, c.W), func() string { return fmt.Sprint(mm.Intervals()) })
			case "blocks":
				bm := s.mem.Blocks()
				ev.Ivs, ev.Outside = s.ivs(bm)
				s.track("map returned by blocks", func() string { return fmt.Sprint(bm.Intervals()) })
			default:
				panic("harness: unknown mem op " + c.Op)
			}
		})
		if s != nil {
			ev.Mut = s.mutated()
			if s.lower != nil && s.mem != nil {
				// the base layer of an overlay must never change once the overlay is in use
				if c.Op == "new" || c.Layer == "base" {
					s.basePrj = memProjection(s.lower)
				} else if memProjection(s.lower) != s.basePrj {
					ev.BaseMut = true
				}
			}
		}
		emit(ev)
	})

	var rs *memSession
	register("regs", func(raw json.RawMessage, emit func(any)) {
		var c memCase
		if err := json.Unmarshal(raw, &c); err != nil {
			panic(err)
		}
		if c.Blocks == nil {
			c.Blocks = []memBlock{}
		}
		ev := memEvent{memCase: c, Ivs: [][]int{}, RNodes: []Node{}}
		statePrj := func() string {
			out := ""
			keys := []string{}
			for k := range rs.st.Regs.Values() {
				keys = append(keys, string(k))
			}
			sortStrings(keys)
			for _, k := range keys {
				out += k + "=" + exprJSON(rs.st.Regs.Values()[expr.Key(k)]) + ";"
			}
			mk := []string{}
			for k := range rs.st.Mems {
				mk = append(mk, string(k))
			}
			sortStrings(mk)
			for _, k := range mk {
				out += k + ":" + memProjection(rs.st.Mems[expr.Key(k)]) + ";"
			}
			return out
		}
		ev.Panic = guard(func() {
			switch c.Op {
			case "new":
				ev.Reset = true
				rs = &memSession{base: baseOf(c.Base), st: state.New()}
			case "rstore":
				v := leafExpr(c.Val)
				rs.track("stored register value", func() string { return exprJSON(v) })
				rs.st.Regs.Store(expr.NewKey(c.Key), v, expr.Width(c.W))
			case "rload":
				e, ok := rs.st.Regs.Load(expr.NewKey(c.Key), expr.Width(c.W))
				ev.Ok = ok
				if ok {
					d := NewDag()
					ev.Ret = d.Add(e)
					ev.RNodes = d.Nodes
				}
			case "apply":
				es := Build(c.Nodes)
				before := statePrj()
				var ef expr.Effect
				if c.Eff == "reg" {
					ef = expr.NewRegStore(es[c.Value], expr.NewKey(c.Key), expr.Width(c.W))
				} else {
					ef = expr.NewMemStore(es[c.Value], expr.NewKey(c.Key), es[c.Addr], expr.Width(c.W))
				}
				ev.Applied = rs.st.Apply(ef)
				ev.Changed = statePrj() != before
			case "mload":
				e, ok := rs.st.Mems.Load(expr.NewKey(c.Key), model.Addr(rs.base+uint64(c.Off)), expr.Width(c.W))
				ev.Ok = ok
				if ok {
					d := NewDag()
					ev.Ret = d.Add(e)
					ev.RNodes = d.Nodes
				}
			case "mblocks":
				ev.Ivs, ev.Outside = rs.ivs(rs.st.Mems.Blocks(expr.NewKey(c.Key)))
			default:
				panic("harness: unknown regs op " + c.Op)
			}
		})
		if rs != nil {
			ev.Mut = rs.mutated()
		}
		emit(ev)
	})
}
