//go:build verif

package main

import (
	"encoding/json"
	"mltwist/pkg/expr"
)

type constCase struct {
	Case string `json:"case"`
	Op   string `json:"op"` // newuint newint fromuint fromint readuint withwidth alias
	T    string `json:"t"`  // u8 u16 u32 u64 i8 i16 i32 i64
	Val  []int  `json:"val"` // 8 bytes, little endian (two's complement for signed types)
	W    int    `json:"w"`
	B    []int  `json:"b"` // constant bytes (readuint, withwidth, alias)
}

type constEvent struct {
	constCase
	Panicked bool   `json:"panicked"`
	Out      []int  `json:"out"`
	Fits     bool   `json:"fits"`
	After    []int  `json:"after"` // alias: constant re-read after the source slice was overwritten
	Panic    string `json:"panic"` // unexpected panic text (kept separately from the documented range panic)
}

func u64of(bs []int) uint64 { return baseOf(bs) }

func init() {
	register("const", func(raw json.RawMessage, emit func(any)) {
		var c constCase
		if err := json.Unmarshal(raw, &c); err != nil {
			panic(err)
		}
		if c.Val == nil {
			c.Val = []int{}
		}
		if c.B == nil {
			c.B = []int{}
		}
		ev := constEvent{constCase: c, Out: []int{}, After: []int{}}
		v := u64of(c.Val)
		w := expr.Width(c.W)
		var out expr.Const
		msg := guard(func() {
			switch c.Op {
			case "newuint":
				switch c.T {
				case "u8":
					out = expr.NewConstUint(uint8(v), w)
				case "u16":
					out = expr.NewConstUint(uint16(v), w)
				case "u32":
					out = expr.NewConstUint(uint32(v), w)
				case "u64":
					out = expr.NewConstUint(uint64(v), w)
				}
			case "newint":
				switch c.T {
				case "i8":
					out = expr.NewConstInt(int8(v), w)
				case "i16":
					out = expr.NewConstInt(int16(v), w)
				case "i32":
					out = expr.NewConstInt(int32(v), w)
				case "i64":
					out = expr.NewConstInt(int64(v), w)
				}
			case "fromuint":
				switch c.T {
				case "u8":
					out = expr.ConstFromUint(uint8(v))
				case "u16":
					out = expr.ConstFromUint(uint16(v))
				case "u32":
					out = expr.ConstFromUint(uint32(v))
				case "u64":
					out = expr.ConstFromUint(uint64(v))
				}
			case "fromint":
				switch c.T {
				case "i8":
					out = expr.ConstFromInt(int8(v))
				case "i16":
					out = expr.ConstFromInt(int16(v))
				case "i32":
					out = expr.ConstFromInt(int32(v))
				case "i64":
					out = expr.ConstFromInt(int64(v))
				}
			case "readuint":
				k := expr.NewConst(bytesOf(c.B), expr.Width(len(c.B)))
				var r uint64
				switch c.T {
				case "u8":
					x, f := expr.ConstUint[uint8](k)
					r, ev.Fits = uint64(x), f
				case "u16":
					x, f := expr.ConstUint[uint16](k)
					r, ev.Fits = uint64(x), f
				case "u32":
					x, f := expr.ConstUint[uint32](k)
					r, ev.Fits = uint64(x), f
				case "u64":
					x, f := expr.ConstUint[uint64](k)
					r, ev.Fits = uint64(x), f
				}
				ev.Out = le(r, 8)
				return
			case "withwidth":
				k := expr.NewConst(bytesOf(c.B), expr.Width(len(c.B)))
				out = k.WithWidth(w)
				ev.After = ints(k.Bytes())
			case "alias":
				src := bytesOf(c.B)
				k := expr.NewConst(src, w)
				before := ints(k.Bytes())
				for i := range src {
					src[i] ^= 0xA5
				}
				ev.Out = before
				ev.After = ints(k.Bytes())
				return
			default:
				panic("harness: unknown const op " + c.Op)
			}
			ev.Out = ints(out.Bytes())
		})
		if msg != "" {
			ev.Panicked = true
			if c.Op != "newuint" && c.Op != "newint" {
				ev.Panic = msg
			}
		}
		emit(ev)
	})
}
