//go:build verif

package main

import (
	"encoding/json"
	"fmt"
	"mltwist/internal/opcode"
)

type pat struct {
	Bytes []int `json:"bytes"`
	Mask  []int `json:"mask"`
}

type matchCase struct {
	Case string  `json:"case"`
	Pats []pat   `json:"pats"`
	Strs [][]int `json:"strs"`
}

type matchEvent struct {
	matchCase
	Ok    bool   `json:"ok"`
	Res   []int  `json:"res"`
	Panic string `json:"panic"`
}

type opc struct {
	idx int
	o   opcode.Opcode
}

func (o opc) Opcode() opcode.Opcode { return o.o }
func (o opc) Name() string          { return fmt.Sprintf("p%d", o.idx) }

func init() {
	register("match", func(raw json.RawMessage, emit func(any)) {
		var c matchCase
		if err := json.Unmarshal(raw, &c); err != nil {
			panic(err)
		}
		if c.Pats == nil {
			c.Pats = []pat{}
		}
		if c.Strs == nil {
			c.Strs = [][]int{}
		}
		for i := range c.Pats {
			if c.Pats[i].Bytes == nil {
				c.Pats[i].Bytes = []int{}
			}
			if c.Pats[i].Mask == nil {
				c.Pats[i].Mask = []int{}
			}
		}
		for i := range c.Strs {
			if c.Strs[i] == nil {
				c.Strs[i] = []int{}
			}
		}
		ev := matchEvent{matchCase: c, Res: []int{}}
		ev.Panic = guard(func() {
			ops := make([]opc, len(c.Pats))
			for i, p := range c.Pats {
				ops[i] = opc{idx: i, o: opcode.Opcode{Bytes: bytesOf(p.Bytes), Mask: bytesOf(p.Mask)}}
			}
			m, err := opcode.NewMatcher(ops)
			if err != nil {
				return
			}
			ev.Ok = true
			for _, s := range c.Strs {
				o, ok := m.Match(bytesOf(s))
				if ok {
					ev.Res = append(ev.Res, o.idx)
				} else {
					ev.Res = append(ev.Res, -1)
				}
			}
		})
		emit(ev)
	})
}
