//go:build verif

package main

import (
	"encoding/json"
	"mltwist/pkg/expr"
	"mltwist/pkg/model"
)

// keys / instruction validation: parts of the public model beyond the listed properties
type keyCase struct {
	Case string `json:"case"`
	Op   string `json:"op"` // regload | regstore | memload | memstore | insvalidate
	// key described structurally (TLC strings are opaque): the harness renders it
	Hash   bool   `json:"hash"`   // starts with '#'
	Scope  string `json:"scope"`  // one character (or "" to omit)
	Sep1   string `json:"sep1"`   // normally ":"
	Perm   string `json:"perm"`
	Sep2   string `json:"sep2"`
	Name   string `json:"name"`
	Type   int    `json:"type"`
	ByteLn int    `json:"byteln"`
	NilEff bool   `json:"nileff"`
	NoDet  bool   `json:"nodet"`
}

type keyEvent struct {
	keyCase
	Key      string `json:"key"`
	KeyLen   int    `json:"keylen"`
	Panicked bool   `json:"panicked"`
	Err      bool   `json:"err"`
}

func init() {
	register("keys", func(raw json.RawMessage, emit func(any)) {
		var c keyCase
		if err := json.Unmarshal(raw, &c); err != nil {
			panic(err)
		}
		ev := keyEvent{keyCase: c}
		if c.Op == "insvalidate" {
			ins := model.Instruction{Type: model.Type(c.Type), ByteLen: model.Addr(c.ByteLn)}
			ins.Effects = []expr.Effect{expr.NewRegStore(expr.Zero, "x1", expr.Width8)}
			if c.NilEff {
				ins.Effects = append(ins.Effects, nil)
			}
			if !c.NoDet {
				ins.Details = absDetails{text: "i"}
			}
			ev.Panicked = guard(func() { ev.Err = ins.Validate() != nil }) != ""
			emit(ev)
			return
		}
		k := c.Name
		if c.Hash {
			k = "#" + c.Scope + c.Sep1 + c.Perm + c.Sep2 + c.Name
		}
		ev.Key, ev.KeyLen = k, len(k)
		ev.Panicked = guard(func() {
			switch c.Op {
			case "regload":
				expr.NewRegLoad(expr.NewKey(k), expr.Width8)
			case "regstore":
				expr.NewRegStore(expr.Zero, expr.NewKey(k), expr.Width8)
			case "memload":
				expr.NewMemLoad(expr.NewKey(k), expr.Zero, expr.Width8)
			case "memstore":
				expr.NewMemStore(expr.Zero, expr.NewKey(k), expr.Zero, expr.Width8)
			}
		}) != ""
		emit(ev)
	})
}
