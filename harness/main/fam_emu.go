//go:build verif

package main

import (
	"encoding/json"
	"fmt"
	"mltwist/internal/deps"
	"mltwist/internal/elf"
	"mltwist/internal/emulator"
	"mltwist/internal/parser"
	"mltwist/internal/riscv"
	"mltwist/internal/state"
	"mltwist/internal/state/memory"
	"mltwist/pkg/expr"
	"mltwist/pkg/model"
	"sort"
)

type emuBlock struct {
	Off   int   `json:"off"`
	Bytes []int `json:"bytes"`
}

type kv struct {
	Key string `json:"key"`
	Val []int  `json:"val"`
}

type memAcc struct {
	Key  string `json:"key"`
	Addr []int  `json:"addr"`
	Val  []int  `json:"val"`
}

type ask struct {
	K    string `json:"k"` // r | m
	Key  string `json:"key"`
	Addr []int  `json:"addr"`
	W    int    `json:"w"`
	Val  []int  `json:"val"`
}

type emuCase struct {
	Case    string     `json:"case"`
	Op      string     `json:"op"` // emunew | step | final
	Mode    string     `json:"mode"`
	Variant int        `json:"variant"`
	Exts    string     `json:"exts"`
	Base    []int      `json:"base"`
	Image   []emuBlock `json:"image"` // code blocks (rv mode)
	Data    []emuBlock `json:"data"`  // further blocks of the read-only program image
	Entry   int        `json:"entry"`
	IP      int        `json:"ip"` // start address (offset)
	Regs0   []kv       `json:"regs0"`
	Seed    int        `json:"seed"`
	Ins     []absIns   `json:"ins"`   // abs mode
	Moves   [][]int    `json:"moves"` // abs mode: [block, from, to] applied after construction
	BMoves  [][]int    `json:"bmoves"` // block moves [from, to] applied after the instruction moves
	Run     int        `json:"run"`
}

type insDesc struct {
	ID    int    `json:"id"`
	Addr  int    `json:"addr"`
	Orig  int    `json:"orig"`
	Len   int    `json:"len"`
	Nodes []Node `json:"nodes"`
	Effs  []Eff  `json:"effs"`
}

type stepRep struct {
	RL []kv     `json:"rl"`
	RS []kv     `json:"rs"`
	ML []memAcc `json:"ml"`
	MS []memAcc `json:"ms"`
}

type emuEvent struct {
	emuCase
	Reset  bool      `json:"reset"`
	Err    bool      `json:"err"`
	Panic  string    `json:"panic"`
	Layout []insDesc `json:"layout"`
	MovesOK []bool   `json:"movesok"`
	Asks   []ask     `json:"asks"`
	Rep    stepRep   `json:"rep"`
	IPAft  []int     `json:"ipaft"`
	RegsA  []kv      `json:"regsa"`
	MemA   []memAcc  `json:"mema"`
	Lo     int       `json:"lo"`
	Hi     int       `json:"hi"`
}

func le(v uint64, w int) []int {
	r := make([]int, w)
	for i := 0; i < w; i++ {
		r[i] = int(byte(v >> (8 * i)))
	}
	return r
}

// recProvider answers with a fixed pseudo-random function of (seed, key,
// address) and records every question.
type recProvider struct {
	seed uint64
	asks []ask
}

func mix(x uint64) uint64 {
	x ^= x >> 33
	x *= 0xff51afd7ed558ccd
	x ^= x >> 33
	x *= 0xc4ceb9fe1a85ec53
	x ^= x >> 33
	return x
}

func keyHash(k expr.Key) uint64 {
	h := uint64(1469598103934665603)
	for _, c := range []byte(k) {
		h = (h ^ uint64(c)) * 1099511628211
	}
	return h
}

func (p *recProvider) Register(key expr.Key, w expr.Width) expr.Const {
	bs := make([]byte, w)
	v := mix(p.seed ^ keyHash(key))
	if v%5 == 0 {
		v = v >> 8 % 3 // small values now and then
	}
	for i := range bs {
		bs[i] = byte(mix(v+uint64(i/8)) >> (8 * (i % 8)))
	}
	if v%7 == 0 {
		for i := range bs {
			bs[i] = 0xff
		}
	}
	p.asks = append(p.asks, ask{K: "r", Key: string(key), Addr: []int{}, W: int(w), Val: ints(bs)})
	return expr.NewConst(bs, w)
}

func (p *recProvider) Memory(key expr.Key, addr model.Addr, w expr.Width) expr.Const {
	bs := make([]byte, w)
	for i := range bs {
		bs[i] = byte(mix(p.seed ^ keyHash(key) ^ (uint64(addr) + uint64(i))))
	}
	p.asks = append(p.asks, ask{K: "m", Key: string(key), Addr: le(uint64(addr), 8), W: int(w), Val: ints(bs)})
	return expr.NewConst(bs, w)
}

type emuSession struct {
	mode   string
	lo, hi int
	base   uint64
	code *deps.Code
	emu  *emulator.Emulator
	prov *recProvider
	st   *state.State
}

func constBytes(e expr.Expr) []int {
	if c, ok := e.(expr.Const); ok {
		return ints(c.Bytes())
	}
	return []int{-1} // not a constant: never equal to a value
}

func (s *emuSession) regs() []kv {
	out := []kv{}
	for k, v := range s.st.Regs.Values() {
		out = append(out, kv{Key: string(k), Val: constBytes(v)})
	}
	sort.Slice(out, func(i, j int) bool { return out[i].Key < out[j].Key })
	return out
}

func (s *emuSession) memDump() []memAcc {
	out := []memAcc{}
	keys := []string{}
	for k := range s.st.Mems {
		keys = append(keys, string(k))
	}
	sort.Strings(keys)
	for _, k := range keys {
		m := s.st.Mems[expr.Key(k)]
		var top memory.Memory = m
		if o, ok := m.(*memory.Overlay); ok {
			top = o.Overlay() // written / supplied bytes; the read-only image is part of the input
		}
		for _, iv := range top.Blocks().Intervals() {
			bs := []int{}
			for a := iv.Begin(); a < iv.End(); a++ {
				e, ok := m.Load(a, 1)
				if !ok {
					bs = append(bs, -1)
					continue
				}
				bs = append(bs, constBytes(foldExpr(e))[0])
			}
			out = append(out, memAcc{Key: k, Addr: le(uint64(iv.Begin()), 8), Val: bs})
		}
	}
	return out
}

func init() {
	var s *emuSession
	register("emu", func(raw json.RawMessage, emit func(any)) {
		var c emuCase
		if err := json.Unmarshal(raw, &c); err != nil {
			panic(err)
		}
		if c.Image == nil {
			c.Image = []emuBlock{}
		}
		if c.Data == nil {
			c.Data = []emuBlock{}
		}
		if c.Regs0 == nil {
			c.Regs0 = []kv{}
		}
		if c.Ins == nil {
			c.Ins = []absIns{}
		}
		if c.Moves == nil {
			c.Moves = [][]int{}
		}
		if c.Base == nil {
			c.Base = []int{}
		}
		if c.BMoves == nil {
			c.BMoves = [][]int{}
		}
		ev := emuEvent{emuCase: c, Layout: []insDesc{}, MovesOK: []bool{}, Asks: []ask{}, IPAft: []int{}, RegsA: []kv{}, MemA: []memAcc{},
			Rep: stepRep{RL: []kv{}, RS: []kv{}, ML: []memAcc{}, MS: []memAcc{}}}
		if c.Op != "emunew" && (s == nil || s.emu == nil) {
			emit(ev)
			return
		}
		ev.Panic = guard(func() {
			switch c.Op {
			case "emunew":
				ev.Reset = true
				s = &emuSession{base: baseOf(c.Base), prov: &recProvider{seed: uint64(c.Seed)}}
				var seq []parser.Instruction
				var img []memory.ByteBlock
				ids := map[model.Addr]int{}
				if c.Mode == "rv" {
					addrs, bss := []model.Addr{}, [][]byte{}
					for _, b := range c.Image {
						addrs = append(addrs, model.Addr(s.base+uint64(b.Off)))
						bss = append(bss, bytesOf(b.Bytes))
						img = append(img, blockImpl{begin: model.Addr(s.base + uint64(b.Off)), bs: bytesOf(b.Bytes)})
					}
					mem, err := elf.VerifMemory(addrs, bss)
					if err != nil {
						ev.Err = true
						return
					}
					seq, err = parser.Parse(mem, rvParser(c.Variant, c.Exts))
					if err != nil {
						ev.Err = true
						return
					}
				} else {
					for i, a := range c.Ins {
						seq = append(seq, buildIns(s.base, i, a))
					}
				}
				for i, in := range seq {
					ids[in.Addr] = i
				}
				for _, b := range c.Data {
					img = append(img, blockImpl{begin: model.Addr(s.base + uint64(b.Off)), bs: bytesOf(b.Bytes)})
				}
				code, err := deps.NewCode(model.Addr(s.base+uint64(c.Entry)), seq)
				if err != nil {
					ev.Err = true
					return
				}
				for _, m := range c.Moves {
					ev.MovesOK = append(ev.MovesOK, code.Blocks()[m[0]].Move(m[1], m[2]) == nil)
				}
				for _, m := range c.BMoves {
					ev.MovesOK = append(ev.MovesOK, code.Move(m[0], m[1]) == nil)
				}
				byteMem, err := memory.NewBytes(img)
				if err != nil {
					ev.Err = true
					return
				}
				// the memory layering of cmd/mltwist: read-only image under a sparse layer
				st := &state.State{Regs: state.NewRegMap(), Mems: memory.MemMap{
					riscv.MemoryKey: memory.NewOverlay(byteMem, memory.NewSparse())}}
				for _, r := range c.Regs0 {
					st.Regs.Store(expr.NewKey(r.Key), expr.NewConst(bytesOf(r.Val), expr.Width(len(r.Val))), expr.Width(len(r.Val)))
				}
				s.st, s.code = st, code
				s.emu = emulator.New(code, model.Addr(s.base+uint64(c.IP)), s.prov, st)
				ev.Lo, ev.Hi = -1, -1
				for _, b := range code.Blocks() {
					if uint64(b.Begin())-s.base <= uint64(c.IP) && uint64(c.IP) < uint64(b.End())-s.base {
						ev.Lo, ev.Hi = int(uint64(b.Begin())-s.base), int(uint64(b.End())-s.base)
					}
					for _, in := range b.Instructions() {
						d := NewDag()
						effs := d.AddEffects(in.Effects())
						nodes := d.Nodes
						if nodes == nil {
							nodes = []Node{}
						}
						ev.Layout = append(ev.Layout, insDesc{ID: ids[in.OrigAddr()], Addr: int(uint64(in.Begin()) - s.base), Orig: int(uint64(in.OrigAddr()) - s.base),
							Len: int(in.Len()), Nodes: nodes, Effs: effs})
					}
				}
				ev.RegsA = s.regs()
				s.mode, s.lo, s.hi = c.Mode, ev.Lo, ev.Hi
			case "step":
				if s.mode == "abs" {
					// "running a block": nothing runs once the instruction pointer has left the block
					off := uint64(s.emu.MustIP()) - s.base
					if s.lo < 0 || off < uint64(s.lo) || off >= uint64(s.hi) {
						ev.RegsA = s.regs()
						return
					}
				}
				s.prov.asks = nil
				step, err := s.emu.Step()
				if s.prov.asks != nil {
					ev.Asks = s.prov.asks
				}
				if err != nil {
					ev.Err = true
					break
				}
				for k, v := range step.RegLoads {
					ev.Rep.RL = append(ev.Rep.RL, kv{Key: string(k), Val: ints(v.Bytes())})
				}
				for k, v := range step.RegStores {
					ev.Rep.RS = append(ev.Rep.RS, kv{Key: string(k), Val: ints(v.Bytes())})
				}
				sort.Slice(ev.Rep.RL, func(i, j int) bool { return ev.Rep.RL[i].Key < ev.Rep.RL[j].Key })
				sort.Slice(ev.Rep.RS, func(i, j int) bool { return ev.Rep.RS[i].Key < ev.Rep.RS[j].Key })
				for _, a := range step.MemLoads {
					ev.Rep.ML = append(ev.Rep.ML, memAcc{Key: string(a.Key), Addr: le(uint64(a.Addr), 8), Val: ints(a.Value.Bytes())})
				}
				for _, a := range step.MemStores {
					ev.Rep.MS = append(ev.Rep.MS, memAcc{Key: string(a.Key), Addr: le(uint64(a.Addr), 8), Val: ints(a.Value.Bytes())})
				}
				ev.RegsA = s.regs()
			case "final":
				ev.RegsA = s.regs()
				ev.MemA = s.memDump()
			default:
				panic("harness: unknown emu op " + c.Op)
			}
		})
		if c.Op == "step" && ev.Panic != "" && s.prov.asks != nil {
			ev.Asks = s.prov.asks
		}
		emit(ev)
	})
	_ = fmt.Sprint
}
