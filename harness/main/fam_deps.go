//go:build verif

package main

import (
	"encoding/json"
	"mltwist/internal/deps"
	"mltwist/internal/parser"
	"mltwist/pkg/expr"
	"mltwist/pkg/expr/exprtools"
	"mltwist/pkg/model"
	"sort"
)

// absIns is an abstract instruction: which registers / memory spaces it reads
// and writes, its kind, and how it transfers control. The harness turns it
// into a parser.Instruction with executable effects.
type absIns struct {
	Addr     int      `json:"addr"` // offset from the code base
	Len      int      `json:"len"`
	Rd       []string `json:"rd"`
	Wr       []string `json:"wr"`
	Ld       []string `json:"ld"`
	St       []string `json:"st"`
	MemOrder bool     `json:"memorder"`
	Special  bool     `json:"special"`
	JK       string   `json:"jk"` // none | next | const | cond | ind | two
	T        []int    `json:"t"`  // jump targets (offsets)
	Text     string   `json:"text"`
	AddrReg  string   `json:"addrreg"` // if set: memory accesses use this register (one of Rd) as address instead of a constant
}

type depsCase struct {
	Case  string   `json:"case"`
	Op    string   `json:"op"` // new | move | bmove
	Base  []int    `json:"base"`
	Entry int      `json:"entry"`
	Ins   []absIns `json:"ins"`
	Block int      `json:"block"`
	From  int      `json:"from"`
	To    int      `json:"to"`
}

type insProj struct {
	ID   int `json:"id"`
	Addr int `json:"addr"`
	Idx  int `json:"idx"`
	Lo   int `json:"lo"`
	Up   int `json:"up"`
	Len  int `json:"len"`
}

type blockProj struct {
	Pos   int       `json:"pos"`
	Idx   int       `json:"idx"`
	Begin int       `json:"begin"`
	End   int       `json:"end"`
	Ins   []insProj `json:"ins"`
}

type depsEvent struct {
	depsCase
	Reset   bool        `json:"reset"`
	Err     bool        `json:"err"`
	Ok      bool        `json:"ok"`
	Blocks  []blockProj `json:"blocks"`
	Edges   [][]int     `json:"edges"`
	Lookups [][]int     `json:"lookups"`
	EntryOK bool        `json:"entryok"`
	NumIns  int         `json:"numins"`
	Panic   string      `json:"panic"`
}

type absDetails struct{ text string }

func (d absDetails) Name() string   { return d.text }
func (d absDetails) String() string { return d.text }

const memAddrBase = 0x4000

func memAddrOf(key string) uint64 {
	h := uint64(0)
	for _, c := range key {
		h = h*31 + uint64(c)
	}
	return memAddrBase + (h%16)*64
}

func regKey(r string) expr.Key {
	if r == "ip" {
		return expr.IPKey
	}
	return expr.NewKey(r)
}

// buildIns makes the executable instruction: every written location receives
// a value computed from a per-instruction constant and everything read.
func buildIns(base uint64, idx int, a absIns) parser.Instruction {
	addr := model.Addr(base + uint64(a.Addr))
	next := model.Addr(base + uint64(a.Addr) + uint64(a.Len))
	var sum expr.Expr = expr.NewConstUint(uint64(0x0101010101010101)*uint64(idx+1)+uint64(idx)*0x3d, expr.Width64)
	// memory address: a per-space constant, or computed from a register (kept inside a 4 KiB window)
	memAddr := func(m string) expr.Expr {
		if a.AddrReg == "" {
			return expr.NewConstUint(memAddrOf(m), expr.Width64)
		}
		masked := exprtools.BitAnd(expr.NewRegLoad(regKey(a.AddrReg), expr.Width64), expr.NewConstUint(uint64(0xFF8), expr.Width64), expr.Width64)
		return expr.NewBinary(expr.Add, masked, expr.NewConstUint(memAddrOf(m), expr.Width64), expr.Width64)
	}
	for _, r := range a.Rd {
		if r == "ip" || r == a.AddrReg {
			continue
		}
		sum = expr.NewBinary(expr.Add, expr.NewBinary(expr.Mul, sum, expr.NewConstUint(uint64(3), expr.Width64), expr.Width64),
			expr.NewRegLoad(regKey(r), expr.Width64), expr.Width64)
	}
	for _, m := range a.Ld {
		ld := expr.NewMemLoad(expr.NewKey(m), memAddr(m), expr.Width64)
		sum = expr.NewBinary(expr.Add, expr.NewBinary(expr.Mul, sum, expr.NewConstUint(uint64(5), expr.Width64), expr.Width64),
			ld, expr.Width64)
	}
	var effs []expr.Effect
	for k, r := range a.Wr {
		if r == "ip" {
			continue
		}
		v := expr.NewBinary(expr.Add, sum, expr.NewConstUint(uint64(k+1), expr.Width64), expr.Width64)
		effs = append(effs, expr.NewRegStore(v, regKey(r), expr.Width64))
	}
	for k, m := range a.St {
		v := expr.NewBinary(expr.Add, sum, expr.NewConstUint(uint64(k+17), expr.Width64), expr.Width64)
		effs = append(effs, expr.NewMemStore(v, expr.NewKey(m), memAddr(m), expr.Width64))
	}
	tgt := func(i int) expr.Expr { return expr.NewConstUint(base+uint64(a.T[i]), expr.Width64) }
	cond := func(t, f expr.Expr) expr.Expr {
		var c1 expr.Expr = expr.NewConstUint(uint64(0x80), expr.Width64)
		for _, r := range a.Rd {
			if r != "ip" {
				c1 = expr.NewRegLoad(regKey(r), expr.Width64)
				break
			}
		}
		return expr.NewLess(c1, expr.NewConstUint(uint64(1)<<63, expr.Width64), t, f, expr.Width64)
	}
	switch a.JK {
	case "next":
		effs = append(effs, expr.NewRegStore(expr.NewConstUint(uint64(next), expr.Width64), expr.IPKey, expr.Width64))
	case "const":
		effs = append(effs, expr.NewRegStore(tgt(0), expr.IPKey, expr.Width64))
	case "cond":
		effs = append(effs, expr.NewRegStore(cond(tgt(0), expr.NewConstUint(uint64(next), expr.Width64)), expr.IPKey, expr.Width64))
	case "two":
		effs = append(effs, expr.NewRegStore(cond(tgt(0), tgt(1)), expr.IPKey, expr.Width64))
	case "ind":
		var r expr.Expr = expr.NewRegLoad(expr.NewKey("a"), expr.Width64)
		effs = append(effs, expr.NewRegStore(r, expr.IPKey, expr.Width64))
	}
	var typ model.Type
	if a.MemOrder {
		typ |= model.TypeMemOrder
	}
	if a.Special {
		typ |= model.TypeSyscall
	}
	bs := make([]byte, a.Len)
	for i := range bs {
		bs[i] = byte(idx*16 + i)
	}
	text := a.Text
	if text == "" {
		text = "ins"
	}
	return parser.Instruction{Type: typ, Addr: addr, Bytes: bs, Effects: effs, Details: absDetails{text: text}}
}

type depsSession struct {
	base uint64
	code *deps.Code
	ids  map[model.Addr]int // original address -> input index
	lo   int
	hi   int
}

func (s *depsSession) project(ev *depsEvent) {
	ev.Blocks = []blockProj{}
	ev.Lookups = [][]int{}
	if s.code == nil {
		return
	}
	ev.NumIns = s.code.NumInstr()
	for pos, b := range s.code.Blocks() {
		bp := blockProj{Pos: pos, Idx: b.Idx(), Begin: int(uint64(b.Begin()) - s.base), End: int(uint64(b.End()) - s.base), Ins: []insProj{}}
		for i, ins := range b.Instructions() {
			bp.Ins = append(bp.Ins, insProj{ID: s.ids[ins.OrigAddr()], Addr: int(uint64(ins.Begin()) - s.base), Idx: ins.Idx(),
				Lo: b.LowerBound(i), Up: b.UpperBound(i), Len: int(ins.Len())})
		}
		ev.Blocks = append(ev.Blocks, bp)
	}
	for off := s.lo; off < s.hi; off++ {
		a := model.Addr(s.base + uint64(off))
		bpos, iid := -1, -1
		if b, ok := s.code.Address(a); ok {
			for pos, bb := range s.code.Blocks() {
				if bb.Begin() == b.Begin() {
					bpos = pos
				}
			}
			if ins, ok := b.Address(a); ok {
				iid = s.ids[ins.OrigAddr()]
			}
		}
		ev.Lookups = append(ev.Lookups, []int{off, bpos, iid})
	}
}

func init() {
	var s *depsSession
	register("deps", func(raw json.RawMessage, emit func(any)) {
		var c depsCase
		if err := json.Unmarshal(raw, &c); err != nil {
			panic(err)
		}
		if c.Ins == nil {
			c.Ins = []absIns{}
		}
		if c.Base == nil {
			c.Base = []int{}
		}
		ev := depsEvent{depsCase: c, Blocks: []blockProj{}, Edges: [][]int{}, Lookups: [][]int{}}
		if c.Op != "new" && (s == nil || s.code == nil) {
			emit(ev)
			return
		}
		ev.Panic = guard(func() {
			switch c.Op {
			case "new":
				ev.Reset = true
				s = &depsSession{base: baseOf(c.Base), ids: map[model.Addr]int{}, lo: -4, hi: 8}
				seq := make([]parser.Instruction, len(c.Ins))
				for i, a := range c.Ins {
					seq[i] = buildIns(s.base, i, a)
					s.ids[seq[i].Addr] = i
					if a.Addr+a.Len+4 > s.hi {
						s.hi = a.Addr + a.Len + 4
					}
				}
				code, err := deps.NewCode(model.Addr(s.base+uint64(c.Entry)), seq)
				if err != nil {
					ev.Err = true
					return
				}
				s.code = code
				for _, b := range code.Blocks() {
					for _, ins := range b.Instructions() {
						for _, d := range deps.VerifSuccessors(ins) {
							ev.Edges = append(ev.Edges, []int{s.ids[ins.OrigAddr()], s.ids[d.OrigAddr()]})
						}
					}
				}
				sort.Slice(ev.Edges, func(i, j int) bool {
					if ev.Edges[i][0] != ev.Edges[j][0] {
						return ev.Edges[i][0] < ev.Edges[j][0]
					}
					return ev.Edges[i][1] < ev.Edges[j][1]
				})
				_, ev.EntryOK = code.Address(code.Entrypoint())
			case "move":
				ev.Ok = s.code.Blocks()[c.Block].Move(c.From, c.To) == nil
			case "bmove":
				ev.Ok = s.code.Move(c.From, c.To) == nil
			default:
				panic("harness: unknown deps op " + c.Op)
			}
		})
		if ev.Panic == "" {
			ev.Panic = guard(func() { s.project(&ev) })
		}
		emit(ev)
	})
}
