//go:build verif

package main

import (
	"bytes"
	"debug/elf"
	"encoding/binary"
	"encoding/json"
	"fmt"
	melf "mltwist/internal/elf"
	"mltwist/pkg/model"
	"os"
)

// abstract ELF file: the harness writes a real ELF64 little-endian file from it
type elfProg struct {
	Type    int   `json:"ptype"` // 1 = PT_LOAD
	Vaddr   []int `json:"vaddr"` // 8 bytes
	Paddr   []int `json:"paddr,omitempty"` // physical (load) address if it differs from vaddr; never used for loading
	Content []int `json:"content"`
	Filesz  int   `json:"filesz"` // -1: len(content)
	Memsz   []int `json:"memsz"`  // 8 bytes
	Flags   int   `json:"flags"`
}

type elfSect struct {
	Name    string `json:"name"`
	Type    int    `json:"stype"` // 1 PROGBITS, 8 NOBITS
	Flags   int    `json:"flags"` // 4 = EXECINSTR, 2 = ALLOC
	Addr    []int  `json:"addr"`
	Content []int  `json:"content"`
	Size    int    `json:"size"` // NOBITS: size
}

type elfCase struct {
	Case    string    `json:"case"`
	Op      string    `json:"op"` // elfload | elfwrite (write only, returns path)
	EType   int       `json:"etype"`
	Machine int       `json:"machine"`
	Entry   []int     `json:"entry"`
	Progs   []elfProg `json:"progs"`
	Sects   []elfSect `json:"sects"`
	Probes  [][]int   `json:"probes"` // addresses (8 bytes) to look up in both images
	Path    string    `json:"path"`
}

type elfBlockOut struct {
	Addr  []int `json:"addr"`
	Bytes []int `json:"bytes"`
}

type elfLookup struct {
	Addr  []int `json:"addr"`
	Code  []int `json:"code"` // bytes to the end of the block; [-1] = unmapped
	Mem   []int `json:"mem"`
}

type elfEvent struct {
	elfCase
	WriterOK bool          `json:"writerok"` // the file re-read with debug/elf has the requested headers
	NewErr   bool          `json:"newerr"`
	CodeErr  bool          `json:"codeerr"`
	MemErr   bool          `json:"memerr"`
	EntryOut []int         `json:"entryout"`
	Code     []elfBlockOut `json:"code"`
	Mem      []elfBlockOut `json:"mem"`
	Lookups  []elfLookup   `json:"lookups"`
	Panic    string        `json:"panic"`
}

func u64(bs []int) uint64 { return baseOf(bs) }

func writeELF(c elfCase) []byte {
	const ehsize, phsize, shsize = 64, 56, 64
	var buf bytes.Buffer
	phoff := uint64(ehsize)
	dataoff := phoff + uint64(len(c.Progs))*phsize
	// segment and section contents
	var data bytes.Buffer
	poffs := make([]uint64, len(c.Progs))
	for i, p := range c.Progs {
		poffs[i] = dataoff + uint64(data.Len())
		data.Write(bytesOf(p.Content))
	}
	soffs := make([]uint64, len(c.Sects))
	for i, s := range c.Sects {
		soffs[i] = dataoff + uint64(data.Len())
		if s.Type != 8 {
			data.Write(bytesOf(s.Content))
		}
	}
	// section name table
	var strtab bytes.Buffer
	strtab.WriteByte(0)
	nameoff := make([]uint32, len(c.Sects))
	for i, s := range c.Sects {
		nameoff[i] = uint32(strtab.Len())
		strtab.WriteString(s.Name)
		strtab.WriteByte(0)
	}
	shstrName := uint32(strtab.Len())
	strtab.WriteString(".shstrtab")
	strtab.WriteByte(0)
	strtaboff := dataoff + uint64(data.Len())
	data.Write(strtab.Bytes())
	shoff := dataoff + uint64(data.Len())
	shnum := len(c.Sects) + 2
	// ELF header
	ident := []byte{0x7f, 'E', 'L', 'F', 2, 1, 1, 0, 0, 0, 0, 0, 0, 0, 0, 0}
	buf.Write(ident)
	le16 := func(v uint16) { binary.Write(&buf, binary.LittleEndian, v) }
	le32 := func(v uint32) { binary.Write(&buf, binary.LittleEndian, v) }
	le64 := func(v uint64) { binary.Write(&buf, binary.LittleEndian, v) }
	le16(uint16(c.EType))
	le16(uint16(c.Machine))
	le32(1)
	le64(u64(c.Entry))
	le64(phoff)
	le64(shoff)
	le32(0)
	le16(ehsize)
	le16(phsize)
	le16(uint16(len(c.Progs)))
	le16(shsize)
	le16(uint16(shnum))
	le16(uint16(shnum - 1))
	for i, p := range c.Progs {
		le32(uint32(p.Type))
		le32(uint32(p.Flags))
		le64(poffs[i])
		le64(u64(p.Vaddr))
		if len(p.Paddr) == 8 {
			le64(u64(p.Paddr))
		} else {
			le64(u64(p.Vaddr))
		}
		fs := uint64(len(p.Content))
		if p.Filesz >= 0 {
			fs = uint64(p.Filesz)
		}
		le64(fs)
		le64(u64(p.Memsz))
		le64(1)
	}
	buf.Write(data.Bytes())
	// section headers: null, user sections, .shstrtab
	buf.Write(make([]byte, shsize))
	for i, s := range c.Sects {
		le32(nameoff[i])
		le32(uint32(s.Type))
		le64(uint64(s.Flags))
		le64(u64(s.Addr))
		le64(soffs[i])
		size := uint64(len(s.Content))
		if s.Type == 8 {
			size = uint64(s.Size)
		}
		le64(size)
		le32(0)
		le32(0)
		le64(1)
		le64(0)
	}
	le32(shstrName)
	le32(3)
	le64(0)
	le64(0)
	le64(strtaboff)
	le64(uint64(strtab.Len()))
	le32(0)
	le32(0)
	le64(1)
	le64(0)
	return buf.Bytes()
}

func checkWritten(path string, c elfCase) bool {
	f, err := elf.Open(path)
	if err != nil {
		return false
	}
	defer f.Close()
	if int(f.Type) != c.EType || f.Entry != u64(c.Entry) || len(f.Progs) != len(c.Progs) || len(f.Sections) != len(c.Sects)+2 {
		return false
	}
	for i, p := range c.Progs {
		if uint32(f.Progs[i].Type) != uint32(p.Type) || f.Progs[i].Vaddr != u64(p.Vaddr) || f.Progs[i].Memsz != u64(p.Memsz) {
			return false
		}
	}
	for i, s := range c.Sects {
		fs := f.Sections[i+1]
		if fs.Name != s.Name || uint32(fs.Type) != uint32(s.Type) || uint64(fs.Flags) != uint64(s.Flags) || fs.Addr != u64(s.Addr) {
			return false
		}
	}
	return true
}

func blocksOut(m *melf.Memory) []elfBlockOut {
	out := []elfBlockOut{}
	for _, b := range m.Blocks {
		out = append(out, elfBlockOut{Addr: le(uint64(b.Begin()), 8), Bytes: ints(b.Bytes())})
	}
	return out
}

func init() {
	register("elf", func(raw json.RawMessage, emit func(any)) {
		var c elfCase
		if err := json.Unmarshal(raw, &c); err != nil {
			panic(err)
		}
		if c.Progs == nil {
			c.Progs = []elfProg{}
		}
		if c.Sects == nil {
			c.Sects = []elfSect{}
		}
		if c.Probes == nil {
			c.Probes = [][]int{}
		}
		ev := elfEvent{elfCase: c, EntryOut: []int{}, Code: []elfBlockOut{}, Mem: []elfBlockOut{}, Lookups: []elfLookup{}}
		path := c.Path
		if path == "" {
			f, err := os.CreateTemp("", "zzverif-*.elf")
			if err != nil {
				panic(err)
			}
			path = f.Name()
			f.Close()
			defer os.Remove(path)
		}
		if err := os.WriteFile(path, writeELF(c), 0o644); err != nil {
			panic(err)
		}
		ev.WriterOK = checkWritten(path, c)
		if c.Op == "elfwrite" {
			emit(ev)
			return
		}
		ev.Panic = guard(func() {
			p, err := melf.NewParser(path)
			if err != nil {
				ev.NewErr = true
				return
			}
			defer p.Close()
			ev.EntryOut = le(uint64(p.Entrypoint()), 8)
			code, err := p.MachineCode()
			if err != nil {
				ev.CodeErr = true
			} else {
				ev.Code = blocksOut(code)
			}
			mem, err := p.Memory()
			if err != nil {
				ev.MemErr = true
			} else {
				ev.Mem = blocksOut(mem)
			}
			for _, a := range c.Probes {
				l := elfLookup{Addr: a, Code: []int{-1}, Mem: []int{-1}}
				if code != nil {
					if bs := code.Address(model.Addr(u64(a))); bs != nil {
						l.Code = ints(bs)
					}
				}
				if mem != nil {
					if bs := mem.Address(model.Addr(u64(a))); bs != nil {
						l.Mem = ints(bs)
					}
				}
				ev.Lookups = append(ev.Lookups, l)
			}
		})
		_ = fmt.Sprint
		emit(ev)
	})
}
