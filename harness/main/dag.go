//go:build verif

package main

import (
	"fmt"
	"mltwist/pkg/expr"
	"strings"
)

// Node is one entry of a hash-consed expression table (see spec/ExprIR.tla).
type Node struct {
	K string `json:"k"`
	W int    `json:"w"`
	N string `json:"n,omitempty"`
	B []int  `json:"b,omitempty"`
	O int    `json:"o,omitempty"`
	A []int  `json:"a,omitempty"`
	// X: bytes kept behind a constant in its backing array (constant made by narrowing a wider one).
	X []int `json:"x,omitempty"`
}

// Dag hash-conses expressions by structure. Indices are 1-based.
type Dag struct {
	Nodes []Node
	index map[string]int
}

func NewDag() *Dag { return &Dag{index: map[string]int{}} }

func ints(bs []byte) []int {
	r := make([]int, len(bs))
	for i, b := range bs {
		r[i] = int(b)
	}
	return r
}

func bytesOf(is []int) []byte {
	r := make([]byte, len(is))
	for i, b := range is {
		r[i] = byte(b)
	}
	return r
}

func (d *Dag) intern(n Node) int {
	var sb strings.Builder
	fmt.Fprintf(&sb, "%s|%d|%s|%d|%v|%v", n.K, n.W, n.N, n.O, n.B, n.A)
	k := sb.String()
	if i, ok := d.index[k]; ok {
		return i
	}
	d.Nodes = append(d.Nodes, n)
	d.index[k] = len(d.Nodes)
	return len(d.Nodes)
}

// Add serialises ex (and all its subexpressions) and returns its index.
func (d *Dag) Add(ex expr.Expr) int {
	switch e := ex.(type) {
	case expr.Const:
		return d.intern(Node{K: "c", W: int(e.Width()), B: ints(e.Bytes())})
	case expr.RegLoad:
		return d.intern(Node{K: "r", W: int(e.Width()), N: string(e.Key())})
	case expr.Binary:
		a1, a2 := d.Add(e.Arg1()), d.Add(e.Arg2())
		return d.intern(Node{K: "b", W: int(e.Width()), O: int(e.Op()), A: []int{a1, a2}})
	case expr.Less:
		a1, a2 := d.Add(e.Arg1()), d.Add(e.Arg2())
		t, f := d.Add(e.ExprTrue()), d.Add(e.ExprFalse())
		return d.intern(Node{K: "l", W: int(e.Width()), A: []int{a1, a2, t, f}})
	case expr.MemLoad:
		a := d.Add(e.Addr())
		return d.intern(Node{K: "m", W: int(e.Width()), N: string(e.Key()), A: []int{a}})
	default:
		panic(fmt.Sprintf("harness: unknown expr type %T", ex))
	}
}

// Eff is a serialised effect over a node table.
type Eff struct {
	E string `json:"e"` // "reg" | "mem"
	N string `json:"n"`
	W int    `json:"w"`
	V int    `json:"v"`
	A int    `json:"a,omitempty"`
}

func (d *Dag) AddEffect(ef expr.Effect) Eff {
	switch e := ef.(type) {
	case expr.RegStore:
		return Eff{E: "reg", N: string(e.Key()), W: int(e.Width()), V: d.Add(e.Value())}
	case expr.MemStore:
		return Eff{E: "mem", N: string(e.Key()), W: int(e.Width()), V: d.Add(e.Value()), A: d.Add(e.Addr())}
	default:
		panic(fmt.Sprintf("harness: unknown effect type %T", ef))
	}
}

func (d *Dag) AddEffects(efs []expr.Effect) []Eff {
	r := make([]Eff, len(efs))
	for i, e := range efs {
		r[i] = d.AddEffect(e)
	}
	return r
}

// Build constructs real expressions from a node table (children first).
func Build(nodes []Node) []expr.Expr {
	es := make([]expr.Expr, len(nodes)+1)
	for i, n := range nodes {
		var e expr.Expr
		w := expr.Width(n.W)
		switch n.K {
		case "c":
			if len(n.X) > 0 {
				wide := expr.NewConst(append(bytesOf(n.B), bytesOf(n.X)...), w+expr.Width(len(n.X)))
				e = wide.WithWidth(w)
			} else {
				e = expr.NewConst(bytesOf(n.B), w)
			}
		case "r":
			e = expr.NewRegLoad(expr.NewKey(n.N), w)
		case "b":
			e = expr.NewBinary(expr.BinaryOp(n.O), es[n.A[0]], es[n.A[1]], w)
		case "l":
			e = expr.NewLess(es[n.A[0]], es[n.A[1]], es[n.A[2]], es[n.A[3]], w)
		case "m":
			e = expr.NewMemLoad(expr.NewKey(n.N), es[n.A[0]], w)
		default:
			panic("harness: bad node kind " + n.K)
		}
		es[i+1] = e
	}
	return es
}
