-------------------------------- MODULE Deps --------------------------------
(***************************************************************************)
(* Instruction reordering inside basic blocks (internal/deps).             *)
(*                                                                         *)
(* An abstract instruction says which locations it reads and writes and    *)
(* what kind it is:                                                        *)
(*   rd, wr     registers read / written (the instruction pointer "ip" is  *)
(*              a register like any other)                                 *)
(*   ld, st     memory spaces loaded from / stored to                      *)
(*   memorder   memory-ordering instruction (fence, atomics)               *)
(*   special    system call or CPU-state change                            *)
(*   jump       has a real jump target (a possible target other than the   *)
(*              next instruction)                                          *)
(*   len        length in bytes                                            *)
(* A block is a sequence of instructions `orig`; its current order is a    *)
(* permutation `perm` of 1..Len(orig) (perm[p] = id at position p).        *)
(***************************************************************************)
EXTENDS Integers, Sequences, FiniteSets, SequencesExt, TLC

MemAcc(x) == x.ld # {} \/ x.st # {}

\* instruction i must stay before instruction j (ids; i < j in the original order)
Conflict(orig, i, j) ==
    LET a == orig[i] b == orig[j] IN
    /\ i < j
    /\ \/ a.wr \cap (b.rd \cup b.wr) # {}                  \* true and output dependency
       \/ a.rd \cap b.wr # {}                              \* anti dependency
       \/ a.st \cap (b.ld \cup b.st) # {}
       \/ a.ld \cap b.st # {}
       \/ a.special \/ b.special                           \* system calls / CPU state: with everything
       \/ (a.memorder /\ (MemAcc(b) \/ b.memorder))        \* memory ordering: with memory accesses and each other
       \/ (b.memorder /\ MemAcc(a))
       \/ (j = Len(orig) /\ b.jump)                        \* everything stays in front of the terminating jump

\* the antecedent of "independent adjacent instructions may always be swapped"
\* for the instructions at positions p, p+1 of the current order
Independent(orig, perm, p) ==
    LET a == orig[perm[p]] b == orig[perm[p + 1]] IN
    /\ (a.rd \cup a.wr) \cap (b.rd \cup b.wr) = {}
    /\ a.st \cap (b.ld \cup b.st) = {} /\ a.ld \cap b.st = {}
    /\ ~a.special /\ ~b.special
    /\ ~(a.memorder /\ (MemAcc(b) \/ b.memorder)) /\ ~(b.memorder /\ (MemAcc(a) \/ a.memorder))
    /\ ~(p + 1 = Len(perm) /\ b.jump)

Pos(perm, id) == CHOOSE p \in 1..Len(perm) : perm[p] = id
Before(orig, i, j) == IF i < j THEN Conflict(orig, i, j) ELSE FALSE

\* bounds (1-based positions) of the instruction at position p: it may move to
\* any position between its last predecessor and its first successor
Lower(orig, perm, p) ==
    LET preds == {Pos(perm, q) : q \in {q \in 1..Len(orig) : Conflict(orig, q, perm[p])}}
    IN IF preds = {} THEN 1 ELSE 1 + CHOOSE m \in preds : \A x \in preds : x <= m
Upper(orig, perm, p) ==
    LET succs == {Pos(perm, q) : q \in {q \in 1..Len(orig) : Conflict(orig, perm[p], q)}}
    IN IF succs = {} THEN Len(perm) ELSE (CHOOSE m \in succs : \A x \in succs : m <= x) - 1

\* the permutation after moving position f to position t (in between shift by one)
Rotate(perm, f, t) ==
    [p \in 1..Len(perm) |->
        IF f < t THEN (IF p < f \/ p > t THEN perm[p] ELSE IF p = t THEN perm[f] ELSE perm[p + 1])
        ELSE          (IF p < t \/ p > f THEN perm[p] ELSE IF p = t THEN perm[f] ELSE perm[p - 1])]

MoveOk(orig, perm, f, t) ==
    /\ f \in 1..Len(perm) /\ t \in 1..Len(perm)
    /\ Lower(orig, perm, f) <= t /\ t <= Upper(orig, perm, f)

\* every conflicting pair is still in its original relative order
Sound(orig, perm) == \A i, j \in 1..Len(orig) : Conflict(orig, i, j) => Pos(perm, i) < Pos(perm, j)

\* addresses: instructions tile the block from its start in current order
AddrOf(orig, perm, begin, p) ==
    begin + FoldLeft(LAMBDA acc, q : acc + orig[perm[q]].len, 0, [i \in 1..(p - 1) |-> i])

(***************************************************************************)
(* Symbolic execution: the meaning of a block as terms.  Every location    *)
(* holds a term; an instruction writes, to each location it writes, the    *)
(* term <<id, location, terms of everything it reads>>.  Special           *)
(* instructions read and write a location "world" of their own.            *)
(***************************************************************************)
Locs(orig) == UNION {orig[i].rd \cup orig[i].wr \cup orig[i].ld \cup orig[i].st : i \in 1..Len(orig)} \cup {"world"}
Reads(x)  == x.rd \cup x.ld \cup (IF x.special THEN {"world"} ELSE {})
Writes(x) == x.wr \cup x.st \cup (IF x.special THEN {"world"} ELSE {})
SymStep(orig, s, id) ==
    LET x == orig[id]
        ins == [l \in Reads(x) |-> s[l]]
    IN [l \in DOMAIN s |-> IF l \in Writes(x) THEN <<id, l, ins>> ELSE s[l]]
SymExec(orig, perm) ==
    FoldLeft(LAMBDA s, p : SymStep(orig, s, perm[p]), [l \in Locs(orig) |-> <<0, l>>], [i \in 1..Len(perm) |-> i])

(***************************************************************************)
(* Basic blocks (internal/deps/internal/basicblock).  A program is a set   *)
(* of instructions [addr, len, jump, targets] (targets: the constant real  *)
(* jump targets).  Building fails iff the entry point or a constant target *)
(* is not the start of an instruction; otherwise the instructions, in      *)
(* address order, are cut after every instruction with a real jump target, *)
(* at address gaps, and before every constant target and the entry point.  *)
(***************************************************************************)
Starts(prog) == {prog[i].addr : i \in 1..Len(prog)}
BuildFails(prog, entry) ==
    \/ entry \notin Starts(prog)
    \/ \E i \in 1..Len(prog) : \E t \in prog[i].targets : t \notin Starts(prog)
\* prog sorted by address; cut in front of instruction k (k >= 2)?
CutBefore(prog, entry, k) ==
    \/ prog[k - 1].jump
    \/ prog[k - 1].addr + prog[k - 1].len # prog[k].addr
    \/ prog[k].addr = entry
    \/ \E i \in 1..Len(prog) : prog[k].addr \in prog[i].targets
\* the expected partition as a sequence of sequences of addresses
Partition(prog, entry) ==
    FoldLeft(LAMBDA acc, k :
                IF k = 1 \/ CutBefore(prog, entry, k)
                THEN Append(acc, <<prog[k].addr>>)
                ELSE [acc EXCEPT ![Len(acc)] = Append(acc[Len(acc)], prog[k].addr)],
             <<>>, [i \in 1..Len(prog) |-> i])
=============================================================================
