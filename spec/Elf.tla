--------------------------------- MODULE Elf ---------------------------------
(***************************************************************************)
(* Loading of ELF images (internal/elf).  An abstract ELF file:            *)
(*   etype                  0 none, 1 relocatable, 2 executable, 3 shared, *)
(*                          4 core                                         *)
(*   entry                  entry point (address value)                    *)
(*   progs                  program headers [ptype, vaddr, content,        *)
(*                          filesz, memsz]; ptype 1 = loadable             *)
(*   sects                  sections [stype, flags, addr, content, size];  *)
(*                          stype 1 = PROGBITS; flag bit 4 = executable    *)
(* Addresses and sizes are 8-byte values (BV); the blocks used here are    *)
(* small, so offsets inside a block are plain integers.                    *)
(*                                                                         *)
(* Loading may always report an error.  It MUST report one for untyped,    *)
(* relocatable and core files and for overlapping segments / sections.     *)
(* When it succeeds, the program memory is exactly the loadable segments   *)
(* (file bytes, then zeros up to the in-memory size) and the code image is *)
(* exactly the non-empty, executable, address-bearing PROGBITS sections;   *)
(* both sorted by address.                                                 *)
(***************************************************************************)
EXTENDS BV, FiniteSets

MustRejectType(etype) == etype \in {0, 1, 4}

IsLoad(p) == p.ptype = 1
\* expected block of a loadable segment (memsz >= filesz, memsz small)
SegBlock(p) == [addr |-> p.vaddr, bytes |-> p.content \o Zeros(ToNat(SubSeq(p.memsz, 1, 3)) - Len(p.content))]
IsCode(s) == s.stype = 1 /\ Len(s.content) > 0 /\ ~IsZero(s.addr) /\ (s.flags \div 4) % 2 = 1
SecBlock(s) == [addr |-> s.addr, bytes |-> s.content]

\* blocks a and b share an address (a, b non-empty; sizes small)
EndOf(b) == Add(b.addr, FromNat(Len(b.bytes), 3), 9)
Overlap(a, b) == Len(a.bytes) > 0 /\ Len(b.bytes) > 0 /\ Ltu(a.addr, EndOf(b), 9) /\ Ltu(b.addr, EndOf(a), 9)
AnyOverlap(bs) == \E i, k \in 1..Len(bs) : i # k /\ Overlap(bs[i], bs[k])

SortedBlocks(bs) == SetToSortSeq({bs[i] : i \in 1..Len(bs)}, LAMBDA a, b : Ltu(a.addr, b.addr, 9))

\* looking up address a in an image: the bytes from a to the end of its block, or <<-1>>
Lookup(bs, a) ==
    LET hit == {i \in 1..Len(bs) : ~Ltu(a, bs[i].addr, 9) /\ Ltu(a, EndOf(bs[i]), 9)} IN
    IF hit = {} THEN <<-1>>
    ELSE LET b == bs[CHOOSE i \in hit : TRUE]
             off == ToNat(SubSeq(Sub(a, b.addr, 9), 1, 3)) IN
         SubSeq(b.bytes, off + 1, Len(b.bytes))
=============================================================================
