--------------------------------- MODULE RV ---------------------------------
(***************************************************************************)
(* The RISC-V unprivileged ISA as mltwist's front end is documented to     *)
(* support it: RV32I / RV64I with Zicsr, fence, fence.i, ecall, ebreak,    *)
(* and the optional M and A extensions.  Written from the RISC-V           *)
(* unprivileged specification (instruction listings and per-instruction    *)
(* semantics), with the tool's documented approximations:                  *)
(*   - store-conditional always succeeds (writes memory, rd := 0)          *)
(*   - fence, fence.i, ecall, ebreak change no state                       *)
(*                                                                         *)
(* An instruction word is a tuple of (at least) 4 bytes, little endian.    *)
(* Machine values are byte tuples of W = XLEN/8 bytes (module BV).         *)
(***************************************************************************)
EXTENDS ExprIR, Gadgets

\* bit k (0-based) of the word is wb[k + 1]
WBits(word) == Bits(SubSeq(word, 1, 4))
Fld(wb, lo, hi) == FoldLeft(LAMBDA acc, i : acc + wb[lo + i] * (2 ^ (i - 1)), 0, Idx(hi - lo + 1))

Opc(wb) == Fld(wb, 0, 6)
Rd(wb)  == Fld(wb, 7, 11)
F3(wb)  == Fld(wb, 12, 14)
Rs1(wb) == Fld(wb, 15, 19)
Rs2(wb) == Fld(wb, 20, 24)
F7(wb)  == Fld(wb, 25, 31)
F6(wb)  == Fld(wb, 26, 31)
F5(wb)  == Fld(wb, 27, 31)
CsrNo(wb) == Fld(wb, 20, 31)             \* unsigned 12-bit CSR number

(***************************************************************************)
(* Decoding: the mnemonic of a word in a configuration, or "invalid".      *)
(***************************************************************************)
Branches == <<"beq", "bne", "invalid", "invalid", "blt", "bge", "bltu", "bgeu">>
Loads32  == <<"lb", "lh", "lw", "invalid", "lbu", "lhu", "invalid", "invalid">>
Loads64  == <<"lb", "lh", "lw", "ld", "lbu", "lhu", "lwu", "invalid">>
Stores32 == <<"sb", "sh", "sw", "invalid", "invalid", "invalid", "invalid", "invalid">>
Stores64 == <<"sb", "sh", "sw", "sd", "invalid", "invalid", "invalid", "invalid">>
OpImm    == <<"addi", "", "slti", "sltiu", "xori", "", "ori", "andi">>
Op0      == <<"add", "sll", "slt", "sltu", "xor", "srl", "or", "and">>
OpM      == <<"mul", "mulh", "mulhsu", "mulhu", "div", "divu", "rem", "remu">>
OpMW     == <<"mulw", "invalid", "invalid", "invalid", "divw", "divuw", "remw", "remuw">>
Csrs     == <<"invalid", "csrrw", "csrrs", "csrrc", "invalid", "csrrwi", "csrrsi", "csrrci">>

AmoName(f5) ==
    CASE f5 = 2 -> "lr" [] f5 = 3 -> "sc" [] f5 = 1 -> "amoswap" [] f5 = 0 -> "amoadd"
      [] f5 = 4 -> "amoxor" [] f5 = 12 -> "amoand" [] f5 = 8 -> "amoor" [] f5 = 16 -> "amomin"
      [] f5 = 20 -> "amomax" [] f5 = 24 -> "amominu" [] f5 = 28 -> "amomaxu" [] OTHER -> "invalid"

Decode(xlen, hasM, hasA, wb) ==
    LET op == Opc(wb) f3 == F3(wb) f7 == F7(wb) IN
    CASE op = 55  -> "lui"
      [] op = 23  -> "auipc"
      [] op = 111 -> "jal"
      [] op = 103 -> IF f3 = 0 THEN "jalr" ELSE "invalid"
      [] op = 99  -> Branches[f3 + 1]
      [] op = 3   -> IF xlen = 64 THEN Loads64[f3 + 1] ELSE Loads32[f3 + 1]
      [] op = 35  -> IF xlen = 64 THEN Stores64[f3 + 1] ELSE Stores32[f3 + 1]
      [] op = 19  -> IF f3 = 1
                     THEN (IF (IF xlen = 64 THEN F6(wb) = 0 ELSE f7 = 0) THEN "slli" ELSE "invalid")
                     ELSE IF f3 = 5
                     THEN (LET hi == IF xlen = 64 THEN F6(wb) * 2 ELSE f7 IN
                           IF hi = 0 THEN "srli" ELSE IF hi = 32 THEN "srai" ELSE "invalid")
                     ELSE OpImm[f3 + 1]
      [] op = 51  -> IF f7 = 0 THEN Op0[f3 + 1]
                     ELSE IF f7 = 32 THEN (IF f3 = 0 THEN "sub" ELSE IF f3 = 5 THEN "sra" ELSE "invalid")
                     ELSE IF f7 = 1 /\ hasM THEN OpM[f3 + 1]
                     ELSE "invalid"
      [] op = 27  -> IF xlen # 64 THEN "invalid"
                     ELSE IF f3 = 0 THEN "addiw"
                     ELSE IF f3 = 1 THEN (IF f7 = 0 THEN "slliw" ELSE "invalid")
                     ELSE IF f3 = 5 THEN (IF f7 = 0 THEN "srliw" ELSE IF f7 = 32 THEN "sraiw" ELSE "invalid")
                     ELSE "invalid"
      [] op = 59  -> IF xlen # 64 THEN "invalid"
                     ELSE IF f7 = 0 THEN (IF f3 = 0 THEN "addw" ELSE IF f3 = 1 THEN "sllw"
                                          ELSE IF f3 = 5 THEN "srlw" ELSE "invalid")
                     ELSE IF f7 = 32 THEN (IF f3 = 0 THEN "subw" ELSE IF f3 = 5 THEN "sraw" ELSE "invalid")
                     ELSE IF f7 = 1 /\ hasM THEN OpMW[f3 + 1]
                     ELSE "invalid"
      [] op = 15  -> IF f3 = 0 /\ Rd(wb) = 0 /\ Rs1(wb) = 0 /\ Fld(wb, 28, 31) = 0 THEN "fence"
                     ELSE IF f3 = 1 /\ Rd(wb) = 0 /\ Rs1(wb) = 0 /\ Fld(wb, 20, 31) = 0 THEN "fence.i"
                     ELSE "invalid"
      [] op = 115 -> IF f3 = 0
                     THEN (IF Rd(wb) = 0 /\ Rs1(wb) = 0 /\ Fld(wb, 20, 31) = 0 THEN "ecall"
                           ELSE IF Rd(wb) = 0 /\ Rs1(wb) = 0 /\ Fld(wb, 20, 31) = 1 THEN "ebreak"
                           ELSE "invalid")
                     ELSE Csrs[f3 + 1]
      [] op = 47  -> IF ~hasA \/ ~(f3 = 2 \/ (f3 = 3 /\ xlen = 64)) THEN "invalid"
                     ELSE LET n == AmoName(F5(wb)) IN
                          IF n = "invalid" \/ (n = "lr" /\ Rs2(wb) # 0) THEN "invalid"
                          ELSE n \o (IF f3 = 2 THEN ".w" ELSE ".d")
      [] OTHER    -> "invalid"

(***************************************************************************)
(* The same instruction set as a table of cubes: an instruction is a set   *)
(* of fixed fields <<lo, hi, value>>; a word is that instruction iff all    *)
(* fixed fields agree.  (Second, independent formulation of Decode; RV_MC  *)
(* checks that the two agree and that no two cubes overlap.  The cube form *)
(* is what the exhaustive 2^32 sweep is compared with.)                    *)
(***************************************************************************)
C1(n, op)            == [name |-> n, f |-> <<<<0, 6, op>>>>]
C2(n, op, f3)        == [name |-> n, f |-> <<<<0, 6, op>>, <<12, 14, f3>>>>]
C3(n, op, f3, f7)    == [name |-> n, f |-> <<<<0, 6, op>>, <<12, 14, f3>>, <<25, 31, f7>>>>]
C3s(n, op, f3, f6)   == [name |-> n, f |-> <<<<0, 6, op>>, <<12, 14, f3>>, <<26, 31, f6>>>>]
CAmo(n, f3, f5)      == [name |-> n, f |-> <<<<0, 6, 47>>, <<12, 14, f3>>, <<27, 31, f5>>>>]
CLr(n, f3)           == [name |-> n, f |-> <<<<0, 6, 47>>, <<12, 14, f3>>, <<27, 31, 2>>, <<20, 24, 0>>>>]
CSys(n, op, f3, imm) == [name |-> n, f |-> <<<<0, 6, op>>, <<7, 11, 0>>, <<12, 14, f3>>, <<15, 19, 0>>, <<20, 31, imm>>>>]

CubesI(xlen) ==
    <<C1("lui", 55), C1("auipc", 23), C1("jal", 111), C2("jalr", 103, 0),
      C2("beq", 99, 0), C2("bne", 99, 1), C2("blt", 99, 4), C2("bge", 99, 5), C2("bltu", 99, 6), C2("bgeu", 99, 7),
      C2("lb", 3, 0), C2("lh", 3, 1), C2("lw", 3, 2), C2("lbu", 3, 4), C2("lhu", 3, 5),
      C2("sb", 35, 0), C2("sh", 35, 1), C2("sw", 35, 2),
      C2("addi", 19, 0), C2("slti", 19, 2), C2("sltiu", 19, 3), C2("xori", 19, 4), C2("ori", 19, 6), C2("andi", 19, 7),
      C3("add", 51, 0, 0), C3("sub", 51, 0, 32), C3("sll", 51, 1, 0), C3("slt", 51, 2, 0), C3("sltu", 51, 3, 0),
      C3("xor", 51, 4, 0), C3("srl", 51, 5, 0), C3("sra", 51, 5, 32), C3("or", 51, 6, 0), C3("and", 51, 7, 0),
      [name |-> "fence", f |-> <<<<0, 6, 15>>, <<7, 11, 0>>, <<12, 14, 0>>, <<15, 19, 0>>, <<28, 31, 0>>>>],
      CSys("fence.i", 15, 1, 0), CSys("ecall", 115, 0, 0), CSys("ebreak", 115, 0, 1),
      C2("csrrw", 115, 1), C2("csrrs", 115, 2), C2("csrrc", 115, 3),
      C2("csrrwi", 115, 5), C2("csrrsi", 115, 6), C2("csrrci", 115, 7)>> \o
    (IF xlen = 64
     THEN <<C3s("slli", 19, 1, 0), C3s("srli", 19, 5, 0), C3s("srai", 19, 5, 16),
            C2("ld", 3, 3), C2("lwu", 3, 6), C2("sd", 35, 3), C2("addiw", 27, 0),
            C3("slliw", 27, 1, 0), C3("srliw", 27, 5, 0), C3("sraiw", 27, 5, 32),
            C3("addw", 59, 0, 0), C3("subw", 59, 0, 32), C3("sllw", 59, 1, 0), C3("srlw", 59, 5, 0), C3("sraw", 59, 5, 32)>>
     ELSE <<C3("slli", 19, 1, 0), C3("srli", 19, 5, 0), C3("srai", 19, 5, 32)>>)
CubesM(xlen) ==
    <<C3("mul", 51, 0, 1), C3("mulh", 51, 1, 1), C3("mulhsu", 51, 2, 1), C3("mulhu", 51, 3, 1),
      C3("div", 51, 4, 1), C3("divu", 51, 5, 1), C3("rem", 51, 6, 1), C3("remu", 51, 7, 1)>> \o
    (IF xlen = 64 THEN <<C3("mulw", 59, 0, 1), C3("divw", 59, 4, 1), C3("divuw", 59, 5, 1),
                         C3("remw", 59, 6, 1), C3("remuw", 59, 7, 1)>> ELSE <<>>)
AmoF5 == <<<<"sc", 3>>, <<"amoswap", 1>>, <<"amoadd", 0>>, <<"amoxor", 4>>, <<"amoand", 12>>, <<"amoor", 8>>,
           <<"amomin", 16>>, <<"amomax", 20>>, <<"amominu", 24>>, <<"amomaxu", 28>>>>
CubesAw(sfx, f3) == <<CLr("lr" \o sfx, f3)>> \o [i \in 1..Len(AmoF5) |-> CAmo(AmoF5[i][1] \o sfx, f3, AmoF5[i][2])]
CubesA(xlen) == CubesAw(".w", 2) \o (IF xlen = 64 THEN CubesAw(".d", 3) ELSE <<>>)
Cubes(xlen, hasM, hasA) ==
    CubesI(xlen) \o (IF hasM THEN CubesM(xlen) ELSE <<>>) \o (IF hasA THEN CubesA(xlen) ELSE <<>>)

CubeMatches(c, wb) == \A i \in 1..Len(c.f) : Fld(wb, c.f[i][1], c.f[i][2]) = c.f[i][3]
DecodeByCubes(xlen, hasM, hasA, wb) ==
    LET cs == Cubes(xlen, hasM, hasA)
        ms == {i \in 1..Len(cs) : CubeMatches(cs[i], wb)}
    IN IF ms = {} THEN "invalid" ELSE IF Cardinality(ms) > 1 THEN "ambiguous" ELSE cs[CHOOSE i \in ms : TRUE].name
\* bit k (0..31) of a cube: 0 / 1 if fixed, -1 if free
CubeBit(c, k) ==
    LET fs == {i \in 1..Len(c.f) : c.f[i][1] <= k /\ k <= c.f[i][2]} IN
    IF fs = {} THEN -1
    ELSE LET i == CHOOSE x \in fs : TRUE IN (c.f[i][3] \div (2 ^ (k - c.f[i][1]))) % 2

(***************************************************************************)
(* Immediates.  Bit(k) gives bit k of the sign-extended immediate.         *)
(***************************************************************************)
ImmBit(wb, t, k) ==
    CASE t = "I" -> IF k <= 10 THEN wb[20 + k + 1] ELSE wb[32]
      [] t = "S" -> IF k <= 4 THEN wb[7 + k + 1] ELSE IF k <= 10 THEN wb[25 + (k - 5) + 1] ELSE wb[32]
      [] t = "B" -> IF k = 0 THEN 0 ELSE IF k <= 4 THEN wb[8 + (k - 1) + 1]
                    ELSE IF k <= 10 THEN wb[25 + (k - 5) + 1] ELSE IF k = 11 THEN wb[8] ELSE wb[32]
      [] t = "U" -> IF k <= 11 THEN 0 ELSE IF k <= 30 THEN wb[k + 1] ELSE wb[32]
      [] t = "J" -> IF k = 0 THEN 0 ELSE IF k <= 10 THEN wb[21 + (k - 1) + 1] ELSE IF k = 11 THEN wb[21]
                    ELSE IF k <= 19 THEN wb[k + 1] ELSE wb[32]
\* the immediate as a W-byte two's complement value
Imm(wb, t, W) == FromBits(TLCEval([k \in 1..(8 * W) |-> ImmBit(wb, t, k - 1)]))
\* the immediate as a (32-bit signed) integer, for texts
ImmInt(wb, t) ==
    CASE t = "I" -> Fld(wb, 20, 30) - 2048 * wb[32]
      [] t = "S" -> Fld(wb, 7, 11) + 32 * Fld(wb, 25, 30) - 2048 * wb[32]
      [] t = "B" -> 2 * Fld(wb, 8, 11) + 32 * Fld(wb, 25, 30) + 2048 * wb[8] - 4096 * wb[32]
      [] t = "U" -> IF wb[32] = 1 THEN (Fld(wb, 12, 30) - 524288) * 4096 ELSE Fld(wb, 12, 30) * 4096
      [] t = "J" -> 2 * Fld(wb, 21, 30) + 2048 * wb[21] + 4096 * Fld(wb, 12, 19) - 1048576 * wb[32]

(***************************************************************************)
(* Execution.  s = [x, csr, mem]:                                          *)
(*   s.x    sequence of 31 values (x1..x31) of W bytes; x0 reads as zero   *)
(*   s.csr  value of the CSR the instruction names (W bytes)               *)
(*   s.mem  the byte-addressed memory (ExprIR memory space)                *)
(* The result says what changes:                                           *)
(*   rd, rdv     register written (0: none) and its new value              *)
(*   mw          sequence of memory writes [a |-> address, b |-> bytes]    *)
(*   csrw, csrv  whether / what the CSR is written                         *)
(*   ip          the next instruction pointer                              *)
(***************************************************************************)
X(s, n, W) == IF n = 0 THEN Zeros(W) ELSE Adapt(s.x[n], W)

NoChange(ipv, W) == [rd |-> 0, rdv |-> Zeros(W), mw |-> <<>>, csrw |-> FALSE, csrv |-> Zeros(W), ip |-> ipv]
SetRd(r, n, v)   == IF n = 0 THEN r ELSE [r EXCEPT !.rd = n, !.rdv = v]

\* high W bytes of the 2W-byte product
MulHigh(a, b, W) == High(Mul(a, b, 2 * W), W)

\* register-register / register-immediate ALU operation at width w
Alu(name, a, b, w, shmask) ==
    CASE name \in {"add", "addi", "addw", "addiw"}  -> Add(a, b, w)
      [] name \in {"sub", "subw"}                   -> Sub(a, b, w)
      [] name \in {"slt", "slti"}                   -> IF Lts(a, b, w) THEN FromNat(1, w) ELSE Zeros(w)
      [] name \in {"sltu", "sltiu"}                 -> IF Ltu(a, b, w) THEN FromNat(1, w) ELSE Zeros(w)
      [] name \in {"xor", "xori"}                   -> XorV(a, b, w)
      [] name \in {"or", "ori"}                     -> OrV(a, b, w)
      [] name \in {"and", "andi"}                   -> AndV(a, b, w)
      [] name \in {"sll", "slli", "sllw", "slliw"}  -> Lsh(a, AndV(b, <<shmask>>, w), w)
      [] name \in {"srl", "srli", "srlw", "srliw"}  -> Rsh(a, AndV(b, <<shmask>>, w), w)
      [] name \in {"sra", "srai", "sraw", "sraiw"}  -> RshA(a, AndV(b, <<shmask>>, w), w)
      [] name \in {"mul", "mulw"}                   -> Mul(a, b, w)
      [] name = "mulh"                              -> MulHigh(Sext(a, w, 2 * w), Sext(b, w, 2 * w), w)
      [] name = "mulhsu"                            -> MulHigh(Sext(a, w, 2 * w), Adapt(b, 2 * w), w)
      [] name = "mulhu"                             -> MulHigh(Adapt(a, 2 * w), Adapt(b, 2 * w), w)
      [] name \in {"div", "divw"}                   -> SDiv(a, b, w)
      [] name \in {"divu", "divuw"}                 -> Div(a, b, w)
      [] name \in {"rem", "remw"}                   -> SRem(a, b, w)
      [] name \in {"remu", "remuw"}                 -> Mod(a, b, w)

AmoOp(base, t, v, w) ==
    CASE base = "amoswap" -> Adapt(v, w)
      [] base = "amoadd"  -> Add(t, v, w)
      [] base = "amoxor"  -> XorV(t, v, w)
      [] base = "amoand"  -> AndV(t, v, w)
      [] base = "amoor"   -> OrV(t, v, w)
      [] base = "amomin"  -> IF Lts(t, v, w) THEN Adapt(t, w) ELSE Adapt(v, w)
      [] base = "amomax"  -> IF Lts(t, v, w) THEN Adapt(v, w) ELSE Adapt(t, w)
      [] base = "amominu" -> IF Ltu(t, v, w) THEN Adapt(t, w) ELSE Adapt(v, w)
      [] base = "amomaxu" -> IF Ltu(t, v, w) THEN Adapt(v, w) ELSE Adapt(t, w)

RegReg  == {"add", "sub", "slt", "sltu", "xor", "or", "and", "sll", "srl", "sra",
            "mul", "mulh", "mulhsu", "mulhu", "div", "divu", "rem", "remu"}
RegRegW == {"addw", "subw", "sllw", "srlw", "sraw", "mulw", "divw", "divuw", "remw", "remuw"}
RegImm  == {"addi", "slti", "sltiu", "xori", "ori", "andi"}
ShImm   == {"slli", "srli", "srai"}
ShImmW  == {"slliw", "srliw", "sraiw"}
LoadW   == [lb |-> 1, lh |-> 2, lw |-> 4, ld |-> 8, lbu |-> 1, lhu |-> 2, lwu |-> 4]
StoreW  == [sb |-> 1, sh |-> 2, sw |-> 4, sd |-> 8]
AmoBases == {"amoswap", "amoadd", "amoxor", "amoand", "amoor", "amomin", "amomax", "amominu", "amomaxu"}

\* name: the mnemonic Decode gave (not "invalid"); addr: the instruction's address (W bytes)
Exec(xlen, addr, wb, name, s) ==
    LET W    == xlen \div 8
        next == Add(addr, <<4>>, W)
        rd   == Rd(wb)
        a    == X(s, Rs1(wb), W)
        b    == X(s, Rs2(wb), W)
        nc   == NoChange(next, W)
        shm  == IF xlen = 64 THEN 63 ELSE 31
    IN
    CASE name = "lui"   -> SetRd(nc, rd, Imm(wb, "U", W))
      [] name = "auipc" -> SetRd(nc, rd, Add(addr, Imm(wb, "U", W), W))
      [] name = "jal"   -> SetRd([nc EXCEPT !.ip = Add(addr, Imm(wb, "J", W), W)], rd, next)
      [] name = "jalr"  -> SetRd([nc EXCEPT !.ip = AndV(Add(a, Imm(wb, "I", W), W), <<254>> \o AllOnes(W - 1), W)], rd, next)
      [] name \in {"beq", "bne", "blt", "bge", "bltu", "bgeu"} ->
            LET taken == CASE name = "beq"  -> a = b
                           [] name = "bne"  -> a # b
                           [] name = "blt"  -> Lts(a, b, W)
                           [] name = "bge"  -> ~Lts(a, b, W)
                           [] name = "bltu" -> Ltu(a, b, W)
                           [] name = "bgeu" -> ~Ltu(a, b, W)
            IN [nc EXCEPT !.ip = IF taken THEN Add(addr, Imm(wb, "B", W), W) ELSE next]
      [] name \in DOMAIN LoadW ->
            LET n == LoadW[name]
                v == MemRead(s.mem, Add(a, Imm(wb, "I", W), W), n)
            IN SetRd(nc, rd, IF name \in {"lbu", "lhu", "lwu"} THEN Adapt(v, W) ELSE Sext(v, n, W))
      [] name \in DOMAIN StoreW ->
            [nc EXCEPT !.mw = <<[a |-> Add(a, Imm(wb, "S", W), W), b |-> Adapt(b, StoreW[name])]>>]
      [] name \in RegImm  -> SetRd(nc, rd, Alu(name, a, Imm(wb, "I", W), W, shm))
      [] name \in ShImm   -> SetRd(nc, rd, Alu(name, a, <<Fld(wb, 20, IF xlen = 64 THEN 25 ELSE 24)>>, W, shm))
      [] name \in ShImmW  -> SetRd(nc, rd, Sext(Alu(name, Adapt(a, 4), <<Fld(wb, 20, 24)>>, 4, 31), 4, W))
      [] name = "addiw"   -> SetRd(nc, rd, Sext(Add(a, Imm(wb, "I", W), 4), 4, W))
      [] name \in RegReg  -> SetRd(nc, rd, Alu(name, a, b, W, shm))
      [] name \in RegRegW -> SetRd(nc, rd, Sext(Alu(name, Adapt(a, 4), Adapt(b, 4), 4, 31), 4, W))
      [] name \in {"fence", "fence.i", "ecall", "ebreak"} -> nc
      [] name \in {"csrrw", "csrrs", "csrrc", "csrrwi", "csrrsi", "csrrci"} ->
            LET t == Adapt(s.csr, W)
                v == IF name \in {"csrrwi", "csrrsi", "csrrci"} THEN FromNat(Rs1(wb), W) ELSE a
                n == CASE name \in {"csrrw", "csrrwi"} -> v
                       [] name \in {"csrrs", "csrrsi"} -> OrV(t, v, W)
                       [] name \in {"csrrc", "csrrci"} -> AndV(t, NotV(v, W), W)
            IN SetRd([nc EXCEPT !.csrw = TRUE, !.csrv = n], rd, t)
      [] OTHER ->      \* A extension: <base>.w / <base>.d
            LET n    == IF F3(wb) = 2 THEN 4 ELSE 8
                base == AmoName(F5(wb))
            IN IF base = "lr" THEN SetRd(nc, rd, Sext(MemRead(s.mem, a, n), n, W))
               ELSE IF base = "sc" THEN SetRd([nc EXCEPT !.mw = <<[a |-> a, b |-> Adapt(b, n)]>>], rd, Zeros(W))
               ELSE LET t == MemRead(s.mem, a, n) IN
                    SetRd([nc EXCEPT !.mw = <<[a |-> a, b |-> AmoOp(base, t, b, n)]>>], rd, Sext(t, n, W))

(***************************************************************************)
(* What the text of an instruction must name (C25): the operand registers  *)
(* and immediates that influence Exec.                                     *)
(***************************************************************************)
XName(n) == "x" \o ToString(n)
\* [regs: set of register numbers that matter, imms: set of acceptable spellings per immediate]
Relevant(xlen, wb, name) ==
    LET rd == Rd(wb) r1 == Rs1(wb) r2 == Rs2(wb) IN
    CASE name \in {"lui", "auipc"} -> [regs |-> <<rd>>, imm |-> {ImmInt(wb, "U"), Fld(wb, 12, 31), ImmInt(wb, "U") \div 4096}, mem |-> FALSE]
      [] name = "jal"  -> [regs |-> <<rd>>, imm |-> {ImmInt(wb, "J")}, mem |-> FALSE]
      [] name = "jalr" -> [regs |-> <<rd, r1>>, imm |-> {ImmInt(wb, "I")}, mem |-> FALSE]
      [] name \in {"beq", "bne", "blt", "bge", "bltu", "bgeu"} -> [regs |-> <<r1, r2>>, imm |-> {ImmInt(wb, "B")}, mem |-> FALSE]
      [] name \in DOMAIN LoadW  -> [regs |-> <<rd, r1>>, imm |-> {ImmInt(wb, "I")}, mem |-> TRUE]
      [] name \in DOMAIN StoreW -> [regs |-> <<r2, r1>>, imm |-> {ImmInt(wb, "S")}, mem |-> TRUE]
      [] name \in RegImm \cup {"addiw"} -> [regs |-> <<rd, r1>>, imm |-> {ImmInt(wb, "I")}, mem |-> FALSE]
      [] name \in ShImm  -> [regs |-> <<rd, r1>>, imm |-> {Fld(wb, 20, IF xlen = 64 THEN 25 ELSE 24)}, mem |-> FALSE]
      [] name \in ShImmW -> [regs |-> <<rd, r1>>, imm |-> {Fld(wb, 20, 24)}, mem |-> FALSE]
      [] name \in RegReg \cup RegRegW -> [regs |-> <<rd, r1, r2>>, imm |-> {}, mem |-> FALSE]
      [] name \in {"fence", "fence.i", "ecall", "ebreak"} -> [regs |-> <<>>, imm |-> {}, mem |-> FALSE]
      [] name \in {"csrrw", "csrrs", "csrrc"} -> [regs |-> <<rd, r1>>, imm |-> {CsrNo(wb), ImmInt(wb, "I")}, mem |-> FALSE]
      [] name \in {"csrrwi", "csrrsi", "csrrci"} -> [regs |-> <<rd>>, imm |-> {CsrNo(wb), ImmInt(wb, "I")}, uimm |-> r1, mem |-> FALSE]
      [] OTHER -> IF AmoName(F5(wb)) = "lr" THEN [regs |-> <<rd, r1>>, imm |-> {}, mem |-> FALSE]
                  ELSE [regs |-> <<rd, r1, r2>>, imm |-> {}, mem |-> FALSE]
=============================================================================
