----------------------------- MODULE DepsProof -----------------------------
(***************************************************************************)
(* Unbounded-length argument for the reordering rule of spec/Deps.tla:     *)
(* a move of one instruction to a position inside its bounds never         *)
(* reorders a conflicting pair - for blocks of ANY length.                 *)
(*                                                                         *)
(* Abstraction: instructions are the ids 1..N; Conf is the set of pairs    *)
(* <<i, j>> where i must stay in front of j; pos[i] is the current         *)
(* position of i.  "t lies within the bounds of x" (Deps!Lower <= t <=     *)
(* Deps!Upper) means: every predecessor of x is at a position < t and      *)
(* every successor of x at a position > t (Deps_MC checks with TLC that    *)
(* the two formulations agree on small blocks, invariant Inv_BoundsForm).  *)
(* NewPos is Deps!Rotate seen from the ids.                                *)
(***************************************************************************)
EXTENDS Integers, TLAPS
CONSTANTS N, Conf
ASSUME NAssump == N \in Nat
ASSUME ConfAssump == Conf \subseteq ((1..N) \X (1..N))

Ids == 1..N
TypeOK(pos)    == pos \in [Ids -> Ids]
Injective(pos) == \A a, b \in Ids : pos[a] = pos[b] => a = b
Sound(pos)     == \A c \in Conf : pos[c[1]] < pos[c[2]]

WithinBounds(pos, x, t) ==
    /\ x \in Ids /\ t \in Ids
    /\ \A q \in Ids : <<q, x>> \in Conf => pos[q] < t
    /\ \A q \in Ids : <<x, q>> \in Conf => t < pos[q]

NewPos(pos, x, t) ==
    [y \in Ids |-> IF y = x THEN t
                   ELSE IF pos[x] < pos[y] /\ pos[y] <= t THEN pos[y] - 1
                   ELSE IF t <= pos[y] /\ pos[y] < pos[x] THEN pos[y] + 1
                   ELSE pos[y]]

THEOREM MovePreservesSound ==
    ASSUME NEW pos, NEW x, NEW t,
           TypeOK(pos), Injective(pos), Sound(pos), WithinBounds(pos, x, t)
    PROVE  Sound(NewPos(pos, x, t))
<1> DEFINE np == NewPos(pos, x, t)
<1>1. x \in Ids /\ t \in Ids /\ pos[x] \in Ids
    BY DEF WithinBounds, TypeOK
<1>2. SUFFICES ASSUME NEW c \in Conf PROVE np[c[1]] < np[c[2]]
    BY DEF Sound
<1>3. c[1] \in Ids /\ c[2] \in Ids /\ c = <<c[1], c[2]>>
    BY ConfAssump DEF Ids
<1>4. pos[c[1]] < pos[c[2]]
    BY DEF Sound
<1>5. pos[c[1]] \in Ids /\ pos[c[2]] \in Ids
    BY <1>3 DEF TypeOK
<1>6. c[1] # c[2]
    BY <1>4, <1>5 DEF Ids
<1>7. CASE c[1] = x
    <2>1. t < pos[c[2]]
        BY <1>3, <1>7 DEF WithinBounds
    <2>2. np[c[1]] = t
        BY <1>3, <1>7 DEF NewPos
    <2>3. np[c[2]] = IF pos[x] < pos[c[2]] /\ pos[c[2]] <= t THEN pos[c[2]] - 1
                     ELSE IF t <= pos[c[2]] /\ pos[c[2]] < pos[x] THEN pos[c[2]] + 1 ELSE pos[c[2]]
        BY <1>3, <1>6, <1>7 DEF NewPos
    <2> QED BY <2>1, <2>2, <2>3, <1>5, <1>1 DEF Ids
<1>8. CASE c[2] = x
    <2>1. pos[c[1]] < t
        BY <1>3, <1>8 DEF WithinBounds
    <2>2. np[c[2]] = t
        BY <1>3, <1>8 DEF NewPos
    <2>3. np[c[1]] = IF pos[x] < pos[c[1]] /\ pos[c[1]] <= t THEN pos[c[1]] - 1
                     ELSE IF t <= pos[c[1]] /\ pos[c[1]] < pos[x] THEN pos[c[1]] + 1 ELSE pos[c[1]]
        BY <1>3, <1>6, <1>8 DEF NewPos
    <2> QED BY <2>1, <2>2, <2>3, <1>5, <1>1 DEF Ids
<1>9. CASE c[1] # x /\ c[2] # x
    <2>1. pos[c[1]] # pos[x] /\ pos[c[2]] # pos[x]
        BY <1>3, <1>9, <1>1 DEF Injective
    <2>2. np[c[1]] = IF pos[x] < pos[c[1]] /\ pos[c[1]] <= t THEN pos[c[1]] - 1
                     ELSE IF t <= pos[c[1]] /\ pos[c[1]] < pos[x] THEN pos[c[1]] + 1 ELSE pos[c[1]]
        BY <1>3, <1>9 DEF NewPos
    <2>3. np[c[2]] = IF pos[x] < pos[c[2]] /\ pos[c[2]] <= t THEN pos[c[2]] - 1
                     ELSE IF t <= pos[c[2]] /\ pos[c[2]] < pos[x] THEN pos[c[2]] + 1 ELSE pos[c[2]]
        BY <1>3, <1>9 DEF NewPos
    <2> QED BY <2>1, <2>2, <2>3, <1>4, <1>5, <1>1 DEF Ids
<1> QED BY <1>7, <1>8, <1>9
=============================================================================
