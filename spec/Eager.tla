------------------------------- MODULE Eager -------------------------------
\* Bind an expression to a concrete value before using it several times.
\* (TLC evaluates LET definitions and operator arguments lazily and does not
\* cache them; a bounded quantifier forces one evaluation.)
Let1(E, F(_))            == CHOOSE y \in {F(x) : x \in {E}} : TRUE
Let2(E1, E2, F(_,_))     == CHOOSE y \in {F(x1, x2) : x1 \in {E1}, x2 \in {E2}} : TRUE
Let3(E1, E2, E3, F(_,_,_)) ==
    CHOOSE y \in {F(x1, x2, x3) : x1 \in {E1}, x2 \in {E2}, x3 \in {E3}} : TRUE
=============================================================================
