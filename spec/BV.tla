-------------------------------- MODULE BV --------------------------------
(***************************************************************************)
(* Machine values of arbitrary byte width, the data layer of the mltwist   *)
(* specification.                                                          *)
(*                                                                         *)
(* A value is a tuple of bytes, little endian: <<b0, ..., b(w-1)>>,        *)
(* b \in 0..255, w = its width in bytes (expr.Width, 1..255 in the tool;   *)
(* width 0 is allowed here as the empty tuple).  TLC integers are 32 bit,  *)
(* so nothing in this module ever forms the number a value denotes; every  *)
(* operation works byte-wise.                                              *)
(*                                                                         *)
(* The operations are the ones the expression IR documents                 *)
(* (pkg/expr/binary.go, less.go): all operands are first adapted           *)
(* (zero-extended or truncated) to the operation width w, the result has   *)
(* width w.  Written from that documentation, never from the evaluator.    *)
(***************************************************************************)
EXTENDS Integers, Sequences, SequencesExt, Bitwise, TLC, Eager

\* <<1, ..., n>>.  Loops are written as FoldLeft over an index tuple: FoldLeft
\* is iterated natively by TLC, whereas a RECURSIVE operator nests one evaluation
\* context per level (measured: deep recursion makes evaluation quadratic).
Idx(n)    == TLCEval([i \in 1..n |-> i])

Byte      == 0..255
IsValue(v) == /\ DOMAIN v = 1..Len(v)
              /\ \A i \in 1..Len(v) : v[i] \in Byte

Zeros(w)  == TLCEval([i \in 1..w |-> 0])
AllOnes(w) == TLCEval([i \in 1..w |-> 255])

\* Zero-extend or truncate v to w bytes.
Adapt(v, w) == Let1(v, LAMBDA x : TLCEval([i \in 1..w |-> IF i <= Len(x) THEN x[i] ELSE 0]))

IsZero(v) == \A i \in 1..Len(v) : v[i] = 0

\* Value of a small natural number n (n < 2^31) at width w, truncating.
RECURSIVE FromNatRec(_,_,_)
FromNatRec(n, w, acc) ==
    IF Len(acc) = w THEN acc
    ELSE FromNatRec(n \div 256, w, Append(acc, n % 256))
FromNat(n, w) == FromNatRec(n, w, <<>>)

\* Only for widths <= 3 (self-checks and small fields).
ToNat(v) == IF Len(v) = 0 THEN 0
            ELSE IF Len(v) = 1 THEN v[1]
            ELSE IF Len(v) = 2 THEN v[1] + 256 * v[2]
            ELSE v[1] + 256 * v[2] + 65536 * v[3]

\* Little-endian list of the 8*Len(v) bits of v.
Bits(v) == Let1(v, LAMBDA x :
             TLCEval([k \in 1..(8 * Len(x)) |->
                        (x[((k - 1) \div 8) + 1] \div (2 ^ ((k - 1) % 8))) % 2]))
FromBits(bs) == Let1(bs, LAMBDA x :
             TLCEval([i \in 1..(Len(x) \div 8) |->
                        x[8*i-7] + 2*x[8*i-6] + 4*x[8*i-5] + 8*x[8*i-4]
                        + 16*x[8*i-3] + 32*x[8*i-2] + 64*x[8*i-1] + 128*x[8*i]]))

(***************************************************************************)
(* Addition modulo 2^(8w).                                                 *)
(***************************************************************************)
AddStep(a, b, acc, i) ==
    Let1(a[i] + b[i] + acc.c, LAMBDA s : [c |-> s \div 256, r |-> Append(acc.r, s % 256)])
Add(x, y, w) == Let2(Adapt(x, w), Adapt(y, w), LAMBDA a, b :
                  FoldLeft(LAMBDA acc, i : AddStep(a, b, acc, i), [c |-> 0, r |-> <<>>], Idx(w)).r)

(***************************************************************************)
(* Bitwise NAND.                                                           *)
(***************************************************************************)
Nand(x, y, w) == Let2(Adapt(x, w), Adapt(y, w), LAMBDA a, b :
                   TLCEval([i \in 1..w |-> 255 - (a[i] & b[i])]))
NotV(x, w)    == Let1(Adapt(x, w), LAMBDA a : TLCEval([i \in 1..w |-> 255 - a[i]]))
AndV(x, y, w) == Let2(Adapt(x, w), Adapt(y, w), LAMBDA a, b :
                   TLCEval([i \in 1..w |-> a[i] & b[i]]))
OrV(x, y, w)  == Let2(Adapt(x, w), Adapt(y, w), LAMBDA a, b :
                   TLCEval([i \in 1..w |-> a[i] | b[i]]))
XorV(x, y, w) == Let2(Adapt(x, w), Adapt(y, w), LAMBDA a, b :
                   TLCEval([i \in 1..w |-> a[i] ^^ b[i]]))

\* Two's complement negation and subtraction modulo 2^(8w).
Neg(x, w)    == Add(NotV(x, w), <<1>>, w)
Sub(x, y, w) == Add(x, Neg(y, w), w)

(***************************************************************************)
(* Unsigned comparison of the operands adapted to w bytes.                 *)
(***************************************************************************)
RECURSIVE LtuRec(_,_,_)
LtuRec(a, b, i) == IF i = 0 THEN FALSE
                   ELSE IF a[i] < b[i] THEN TRUE
                   ELSE IF a[i] > b[i] THEN FALSE
                   ELSE LtuRec(a, b, i - 1)
Ltu(x, y, w) == Let2(Adapt(x, w), Adapt(y, w), LAMBDA a, b : LtuRec(a, b, w))
Geu(x, y, w) == ~Ltu(x, y, w)

(***************************************************************************)
(* Multiplication modulo 2^(8w): school-book columns.                      *)
(* A column sum is at most 255*255*255 + carry < 2^31.                     *)
(***************************************************************************)
ColSum(a, b, k, c) ==               \* c + sum over i+j = k+1 of a[i]*b[j]
    FoldLeft(LAMBDA acc, i : acc + a[i] * b[k + 1 - i], c, Idx(k))
MulStep(a, b, acc, k) ==
    Let1(ColSum(a, b, k, acc.c), LAMBDA s : [c |-> s \div 256, r |-> Append(acc.r, s % 256)])
Mul(x, y, w) == Let2(Adapt(x, w), Adapt(y, w), LAMBDA a, b :
                  FoldLeft(LAMBDA acc, k : MulStep(a, b, acc, k), [c |-> 0, r |-> <<>>], Idx(w)).r)

(***************************************************************************)
(* Shifts.  The shift amount is the second operand adapted to w bytes; a   *)
(* shift by at least 8w bits gives zero.                                   *)
(***************************************************************************)
ShiftAmount(s, w) ==               \* -1 if >= 8w, else the number of bits
    Let1(Adapt(s, w), LAMBDA a :
       IF \E i \in 3..w : a[i] # 0 THEN -1
       ELSE Let1(a[1] + (IF w >= 2 THEN 256 * a[2] ELSE 0), LAMBDA n :
                 IF n >= 8 * w THEN -1 ELSE n))

Lsh(x, s, w) ==
    Let2(Adapt(x, w), ShiftAmount(s, w), LAMBDA a, n :
       IF n < 0 THEN Zeros(w)
       ELSE Let2(n \div 8, n % 8, LAMBDA by, bi :
            TLCEval([i \in 1..w |->
               IF i - by < 1 THEN 0
               ELSE ((a[i - by] * (2 ^ bi)) % 256)
                    + (IF i - by - 1 < 1 THEN 0 ELSE a[i - by - 1] \div (2 ^ (8 - bi)))])))

Rsh(x, s, w) ==
    Let2(Adapt(x, w), ShiftAmount(s, w), LAMBDA a, n :
       IF n < 0 THEN Zeros(w)
       ELSE Let2(n \div 8, n % 8, LAMBDA by, bi :
            TLCEval([i \in 1..w |->
               IF i + by > w THEN 0
               ELSE (a[i + by] \div (2 ^ bi))
                    + (IF i + by + 1 > w THEN 0 ELSE (a[i + by + 1] * (2 ^ (8 - bi))) % 256)])))

(***************************************************************************)
(* Unsigned division at width w; division by zero gives all ones.          *)
(* Bit-serial restoring division: 8w steps, each one shift, compare and    *)
(* subtract on a (w+1)-byte remainder.                                     *)
(***************************************************************************)
ShlBit(r, bit) ==                   \* (r * 2 + bit) at the width of r
    Let1(r, LAMBDA a :
      TLCEval([i \in 1..Len(a) |->
                 ((a[i] * 2) % 256) + (IF i = 1 THEN bit ELSE a[i - 1] \div 128)]))

\* abits: bits of the dividend (little endian), consumed from the top;
\* r: remainder (w+1 bytes); q: quotient bits collected so far, MOST
\* significant first.
DivStep(abits, d, n, acc, k) ==
    Let1(ShlBit(acc.r, abits[n + 1 - k]), LAMBDA r2 :
       IF Ltu(r2, d, Len(r2))
       THEN [r |-> r2, q |-> Append(acc.q, 0)]
       ELSE [r |-> Sub(r2, d, Len(r2)), q |-> Append(acc.q, 1)])
DivRec(abits, d, n, r0) == FoldLeft(LAMBDA acc, k : DivStep(abits, d, n, acc, k), [r |-> r0, q |-> <<>>], Idx(n))

RevSeq(s) == Let1(s, LAMBDA x : TLCEval([i \in 1..Len(x) |-> x[Len(x) + 1 - i]]))

DivMod(x, y, w) ==                  \* [q, r], both of width w; y # 0
    Let2(Adapt(x, w), Adapt(Adapt(y, w), w + 1), LAMBDA a, d :
       Let1(DivRec(Bits(a), d, 8 * w, Zeros(w + 1)), LAMBDA res :
            [q |-> FromBits(RevSeq(res.q)), r |-> Adapt(res.r, w)]))

Div(x, y, w) == IF IsZero(Adapt(y, w)) THEN AllOnes(w) ELSE DivMod(x, y, w).q
\* Unsigned remainder; the dividend on a zero divisor.
Mod(x, y, w) == IF IsZero(Adapt(y, w)) THEN Adapt(x, w) ELSE DivMod(x, y, w).r

(***************************************************************************)
(* Signed views (two's complement at width w).                             *)
(***************************************************************************)
IsNeg(x, w)  == w > 0 /\ Adapt(x, w)[w] >= 128
Abs(x, w)    == IF IsNeg(x, w) THEN Neg(x, w) ELSE Adapt(x, w)
\* Sign-extend the w-byte value x to w2 >= w bytes.
Sext(x, w, w2) == Let1(Adapt(x, w), LAMBDA a :
                    IF IsNeg(a, w)
                    THEN TLCEval([i \in 1..w2 |-> IF i <= w THEN a[i] ELSE 255])
                    ELSE Adapt(a, w2))
Lts(x, y, w) == Let2(Adapt(x, w), Adapt(y, w), LAMBDA a, b :
                  IF IsNeg(a, w) # IsNeg(b, w) THEN IsNeg(a, w) ELSE Ltu(a, b, w))
\* Sign extension of x (at width w) from bit position sb (0-based): bits above
\* sb become copies of bit sb.
SextBit(x, sb, w) ==
    Let1(Bits(Adapt(x, w)), LAMBDA bs :
       IF sb + 1 > 8 * w THEN Adapt(x, w)
       ELSE FromBits(TLCEval([k \in 1..(8 * w) |-> IF k <= sb + 1 THEN bs[k] ELSE bs[sb + 1]])))
\* Arithmetic right shift of the w-byte value x by n bits (n a value).
RshA(x, s, w) ==
    Let2(Adapt(x, w), ShiftAmount(s, w), LAMBDA a, n :
       IF n < 0 THEN (IF IsNeg(a, w) THEN AllOnes(w) ELSE Zeros(w))
       ELSE Let1(Bits(a), LAMBDA bs :
              FromBits(TLCEval([k \in 1..(8 * w) |->
                          IF k + n <= 8 * w THEN bs[k + n] ELSE bs[8 * w]]))))

Concat(lo, hi) == lo \o hi
Low(v, w)  == Adapt(v, w)
High(v, w) == Let1(v, LAMBDA x : SubSeq(x, Len(x) - w + 1, Len(x)))
=============================================================================
