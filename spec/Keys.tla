-------------------------------- MODULE Keys --------------------------------
(***************************************************************************)
(* Register and memory keys (pkg/expr/key.go) and instruction descriptors  *)
(* (pkg/model/instruction.go).                                             *)
(*                                                                         *)
(* A key is any non-empty string; keys starting with '#' are reserved.  A  *)
(* reserved key has the form #<scope>:<permission>:<name> with scope in    *)
(* {r(egister), m(emory), b(oth)} and permission in {r(ead), w(rite),      *)
(* b(oth)}; it may be used by a constructor only if its scope and          *)
(* permission allow the use and the key is one the package defines - today *)
(* only "#r:w:ip", the instruction pointer (a register that may be         *)
(* written, never read).  Constructors refuse (panic on) invalid keys.     *)
(* A key is described here by its parts because TLC strings are opaque.    *)
(***************************************************************************)
EXTENDS Naturals

Scopes == {"r", "m", "b"}
Perms  == {"r", "w", "b"}
Allows(have, want) == have = "b" \/ have = want
WantScope(op) == IF op \in {"regload", "regstore"} THEN "r" ELSE "m"
WantPerm(op)  == IF op \in {"regload", "memload"} THEN "r" ELSE "w"

\* k = [hash, scope, sep1, perm, sep2, name, len]
Defined(k) == k.scope = "r" /\ k.perm = "w" /\ k.name = "ip"
KeyOk(op, k) ==
    /\ k.len > 0
    /\ ~k.hash \/ ( /\ k.len >= 6
                    /\ k.sep1 = ":" /\ k.sep2 = ":"
                    /\ k.scope \in Scopes /\ k.perm \in Perms
                    /\ Allows(k.scope, WantScope(op)) /\ Allows(k.perm, WantPerm(op))
                    /\ Defined(k) )

\* an instruction descriptor is valid iff its type is a combination of the three
\* type flags, it has a length, every effect is present and it has details
InsValid(i) == i.type < 8 /\ i.byteln > 0 /\ ~i.nileff /\ ~i.nodet
=============================================================================
