------------------------------ MODULE Mem_MC ------------------------------
(***************************************************************************)
(* The memory state machine on small constants.                            *)
(*  - mc configuration: every history of stores into a base layer and an   *)
(*    upper layer; invariants: the interval-map design refines the cells,  *)
(*    its Load pieces tile the range with the right bytes, its Missing is  *)
(*    the unwritten part, layered reads/missing ranges are what the        *)
(*    per-layer algebra gives.                                             *)
(*  - gen configuration (Gen = TRUE): the same machine prints one store    *)
(*    history per distinct abstract state; the Go harness replays them     *)
(*    into the real memories and the trace specification validates every   *)
(*    read.                                                                *)
(***************************************************************************)
EXTENDS Mem, Json
CONSTANTS N,          \* addresses 0..N-1
          Widths,     \* write widths
          Kinds,      \* value kinds (interpreted by the driver: constant / symbolic, narrower / wider)
          MaxBase, MaxOver, Gen
VARIABLES base, over, ivs, kinds, layers, hist
vars == <<base, over, ivs, kinds, layers, hist>>

Init == /\ base = EmptyCells(N) /\ over = EmptyCells(N) /\ ivs = {}
        /\ kinds = <<>> /\ layers = <<>> /\ hist = <<>>

NBase == Cardinality({i \in 1..Len(layers) : layers[i] = "base"})
NOver == Len(layers) - NBase

Store(layer, a, w, vk) ==
    LET vid == Len(kinds) + 1 IN
    /\ kinds'  = Append(kinds, vk)
    /\ layers' = Append(layers, layer)
    /\ hist'   = Append(hist, [layer |-> layer, a |-> a, w |-> w, vk |-> vk])
    /\ IF layer = "base"
       THEN base' = StoreCells(base, a, w, vid) /\ UNCHANGED <<over, ivs>>
       ELSE over' = StoreCells(over, a, w, vid) /\ ivs' = IvStore(ivs, a, w, vid) /\ UNCHANGED base

Next == \E a \in 0..(N - 1), w \in Widths, vk \in Kinds :
          /\ a + w <= N
          /\ \/ NOver = 0 /\ NBase < MaxBase /\ Store("base", a, w, vk)      \* the base is fixed once the overlay is used
             \/ NOver < MaxOver /\ Store("over", a, w, vk)

View == <<base, over, kinds, layers>>

AllRanges == {<<a, w>> \in (0..(N - 1)) \X (1..N) : a + w <= N}

\* ---- design invariants ---------------------------------------------------
Inv_Refines   == IvWellFormed(ivs) /\ \A x \in 0..(N - 1) : IvCell(ivs, x) = over[x]
Inv_Pieces    == \A r \in AllRanges :
                   LET a == r[1] w == r[2] ps == IvLoadPieces(ivs, a, w) IN
                   /\ IvCovered(ivs, a, w) = LoadOk(over, a, w)
                   /\ LoadOk(over, a, w) =>
                        /\ \A x \in Rng(a, w) : \E p \in ps :
                              /\ p.at <= x - a /\ x - a < p.at + p.len
                              /\ over[x] = Cell(p.vid, p.from + (x - a - p.at))
                        /\ \A p, q \in ps : p # q => (p.at + p.len <= q.at \/ q.at + q.len <= p.at)
Inv_Missing   == \A r \in AllRanges :
                   /\ IvMissing(ivs, r[1], r[2]) = Normal(MissingSet(over, r[1], r[2]))
                   /\ IvBlocks(ivs) = Normal(Present(over))
\* the layered memory: what the per-layer algebra of the tool computes is the
\* abstract layered view
Inv_Layered   == \A r \in AllRanges :
                   LET a == r[1] w == r[2]
                       mo == Normal(MissingSet(over, a, w)) mb == Normal(MissingSet(base, a, w)) IN
                   /\ Intersect(mb, mo) = Normal(MissingSet(Layered(base, over), a, w))
                   /\ Union(Normal(Present(base)), Normal(Present(over))) = Normal(Present(Layered(base, over)))
                   /\ LoadOk(Layered(base, over), a, w) =
                        (\A i \in 1..Len(mo) : LoadOk(base, mo[i][1], mo[i][2] - mo[i][1]))

Dump == Gen => PrintT(<<"HIST", ToJson(hist)>>)
=============================================================================
