------------------------------ MODULE BV_MC ------------------------------
(* Oracle hygiene: the byte-wise arithmetic of BV against TLC's integer   *)
(* arithmetic, exhaustively for one-byte operands (operation widths 1-3)  *)
(* and for a grid of two-byte operands.                                   *)
EXTENDS BV
CONSTANTS Grid,        \* set of byte values used for the second byte
          XS           \* set of byte values used for the first byte
VARIABLES x, y, xh, yh
vars == <<x, y, xh, yh>>
\* Two-level fan-out so that TLC's workers share the invariant evaluations.
Init == x = -1 /\ y = -1 /\ xh \in Grid /\ yh \in Grid
Next == \/ x = -1 /\ x' \in XS /\ UNCHANGED <<y, xh, yh>>
        \/ x >= 0 /\ y = -1 /\ y' \in XS /\ UNCHANGED <<x, xh, yh>>

N(v)  == ToNat(v)
P(w)  == IF w = 1 THEN 256 ELSE IF w = 2 THEN 65536 ELSE 16777216
a == <<x, xh>>
b == <<y, yh>>
na == x + 256 * xh
nb == y + 256 * yh

OkAt(w) ==
  LET ma == na % P(w)  mb == nb % P(w) IN
  /\ N(Add(a, b, w)) = (ma + mb) % P(w)
  /\ N(Sub(a, b, w)) = (ma - mb + P(w)) % P(w)
  /\ N(Mul(a, b, w)) = (ma * (mb % 256) + ((ma * (mb \div 256)) % (P(w) \div 256)) * 256) % P(w)
  /\ N(Div(a, b, w)) = (IF mb = 0 THEN P(w) - 1 ELSE ma \div mb)
  /\ N(Mod(a, b, w)) = (IF mb = 0 THEN ma ELSE ma % mb)
  /\ Ltu(a, b, w) = (ma < mb)
  /\ N(Nand(a, b, w)) = P(w) - 1 - (ma & mb)
  /\ N(Lsh(a, b, w)) = (IF mb >= 8 * w THEN 0 ELSE IF mb >= 16 THEN (ma % (2^(24-mb))) * (2 ^ mb) ELSE (ma * (2 ^ mb)) % P(w))
  /\ N(Rsh(a, b, w)) = (IF mb >= 8 * w THEN 0 ELSE ma \div (2 ^ mb))
  /\ N(Neg(a, w)) = (P(w) - ma) % P(w)
  /\ FromNat(ma, w) = Adapt(a, w)
  /\ FromBits(Bits(Adapt(a, w))) = Adapt(a, w)
  /\ Lts(a, b, w) = (LET sa == IF ma >= P(w) \div 2 THEN ma - P(w) ELSE ma
                          sb == IF mb >= P(w) \div 2 THEN mb - P(w) ELSE mb IN sa < sb)
  /\ N(RshA(a, b, w)) = (IF mb >= 8 * w THEN (IF ma >= P(w) \div 2 THEN P(w) - 1 ELSE 0)
                         ELSE LET sa == IF ma >= P(w) \div 2 THEN ma - P(w) ELSE ma IN
                              ((sa \div (2 ^ mb)) + P(w)) % P(w))
  /\ (w <= 2 => N(Sext(a, w, 3)) = (IF ma >= P(w) \div 2 THEN ma + P(3) - P(w) ELSE ma))

Inv == (x >= 0 /\ y >= 0) => (OkAt(1) /\ OkAt(2) /\ OkAt(3))
=============================================================================
