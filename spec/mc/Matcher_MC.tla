----------------------------- MODULE Matcher_MC -----------------------------
(* Design check: the closed formula Ambiguous(p, q) is exactly "some byte   *)
(* string matches both patterns", for all pairs of well-formed patterns of *)
(* length 1-2 over 2-bit bytes and all strings of length <= 2 over them.    *)
EXTENDS Matcher
B == 0..3
Pats == {[bytes |-> b, mask |-> m] : b \in UNION {[1..n -> B] : n \in 1..2}, m \in UNION {[1..n -> B] : n \in 1..2}}
WF == {p \in Pats : WellFormed(p)}
Strs == UNION {[1..n -> B] : n \in 0..2}
VARIABLES p, q
Init == p \in WF /\ q \in WF
Next == UNCHANGED <<p, q>>
Inv == Ambiguous(p, q) = (\E s \in Strs : Matches(p, s) /\ Matches(q, s))
=============================================================================
