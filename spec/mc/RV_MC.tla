------------------------------- MODULE RV_MC -------------------------------
(* Oracle hygiene for RV: the two formulations of the instruction set      *)
(* (nested case analysis `Decode`, table of cubes `Cubes`) agree on every  *)
(* canonical word of every cube, on every single-bit flip of it and on     *)
(* all-ones free fields; cubes never overlap ("ambiguous" never occurs).   *)
EXTENDS RV
VARIABLES cfg, ci, flip, fill
vars == <<cfg, ci, flip, fill>>
Cfgs == {<<x, m, a>> : x \in {32, 64}, m \in BOOLEAN, a \in BOOLEAN}
Init == /\ cfg \in Cfgs
        /\ ci \in 1..Len(Cubes(cfg[1], TRUE, TRUE))
        /\ flip \in 0..32 /\ fill \in {0, 1}
Next == UNCHANGED vars
\* the word: cube bits, free bits = fill, then bit (flip-1) inverted
WordBits == LET c == Cubes(cfg[1], TRUE, TRUE)[ci] IN
            [k \in 1..32 |-> LET b == IF CubeBit(c, k - 1) >= 0 THEN CubeBit(c, k - 1) ELSE fill
                             IN IF flip = k THEN 1 - b ELSE b]
Inv == /\ DecodeByCubes(cfg[1], cfg[2], cfg[3], WordBits) # "ambiguous"
       /\ DecodeByCubes(cfg[1], cfg[2], cfg[3], WordBits) = Decode(cfg[1], cfg[2], cfg[3], WordBits)
=============================================================================
