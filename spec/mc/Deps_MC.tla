------------------------------ MODULE Deps_MC ------------------------------
(***************************************************************************)
(* The reordering state machine on small constants: every block of up to   *)
(* MaxLen instructions drawn from the alphabet Kinds, every history of     *)
(* moves admitted by the bounds.                                           *)
(* Design invariants: an admitted move never reorders a conflicting pair   *)
(* (Sound), never changes the symbolic meaning of the block (SymExec), the *)
(* bounds of every instruction contain its own position, and independent   *)
(* adjacent instructions can be swapped.                                   *)
(* With Gen = TRUE it prints one (block, move history) per distinct        *)
(* (block, order): the behaviours replayed into the real code.             *)
(***************************************************************************)
EXTENDS Deps, Json
CONSTANTS MaxLen, Gen, KindSet
VARIABLES orig, perm, hist, phase
vars == <<orig, perm, hist, phase>>

I(rd, wr, ld, st, mo, sp, jp, ln) ==
    [rd |-> rd, wr |-> wr, ld |-> ld, st |-> st, memorder |-> mo, special |-> sp, jump |-> jp, len |-> ln]
\* the alphabet of abstract instructions
Kinds == <<
    I({}, {"a"}, {}, {}, FALSE, FALSE, FALSE, 4),            \*  1  a := const
    I({"a"}, {"a"}, {}, {}, FALSE, FALSE, FALSE, 2),         \*  2  a := f(a)
    I({"a"}, {"b"}, {}, {}, FALSE, FALSE, FALSE, 4),         \*  3  b := f(a)
    I({"b"}, {"a"}, {}, {}, FALSE, FALSE, FALSE, 4),         \*  4  a := f(b)
    I({}, {"b"}, {}, {}, FALSE, FALSE, FALSE, 2),            \*  5  b := const
    I({}, {"a"}, {"m"}, {}, FALSE, FALSE, FALSE, 4),         \*  6  a := load m
    I({"a"}, {}, {}, {"m"}, FALSE, FALSE, FALSE, 4),         \*  7  store m := a
    I({}, {}, {}, {"m"}, FALSE, FALSE, FALSE, 4),            \*  8  store m := const
    I({}, {}, {}, {}, TRUE, FALSE, FALSE, 4),                \*  9  fence
    I({}, {}, {}, {}, FALSE, TRUE, FALSE, 4),                \* 10  system call
    I({}, {"c"}, {}, {}, FALSE, FALSE, FALSE, 4),            \* 11  c := const (independent of a, b)
    I({"b"}, {"b"}, {"m"}, {"m"}, TRUE, FALSE, FALSE, 4),    \* 12  atomic: b := m, m := f(m, b)
    I({}, {"ip"}, {}, {}, FALSE, FALSE, FALSE, 4),           \* 13  ip := next (no real target)
    I({"a"}, {"ip"}, {}, {}, FALSE, FALSE, TRUE, 4),         \* 14  conditional jump (last only)
    I({}, {"b"}, {"n"}, {}, FALSE, FALSE, FALSE, 4),         \* 15  b := load n (second memory)
    I({"c"}, {}, {}, {"n"}, FALSE, FALSE, FALSE, 2),         \* 16  store n := c
    I({"b"}, {}, {}, {"m"}, FALSE, FALSE, FALSE, 4),         \* 17  store m[b] := const   (address from a register)
    I({"b"}, {"a"}, {"m"}, {}, FALSE, FALSE, FALSE, 4),      \* 18  a := load m[b]
    I({}, {"m"}, {}, {}, FALSE, FALSE, FALSE, 4),            \* 19  register "m" := const (a REGISTER named like the memory space m:
    I({"m"}, {"c"}, {}, {}, FALSE, FALSE, FALSE, 4)          \* 20  c := f(register "m")    registers and memories are separate name spaces)
>>

Blocks(n) == [1..n -> KindSet]
Id(n) == [i \in 1..n |-> i]

Init == /\ phase = "new" /\ orig = <<>> /\ perm = <<>> /\ hist = <<>>
Choose == /\ phase = "new"
          /\ \E n \in 1..MaxLen : \E ks \in Blocks(n) :
                /\ \A i \in 1..n : Kinds[ks[i]].jump => i = n        \* a real jump terminates its block
                /\ orig' = [i \in 1..n |-> Kinds[ks[i]]]
                /\ perm' = Id(n)
                /\ hist' = [kinds |-> ks, moves |-> <<>>]
          /\ phase' = "move"
Move == /\ phase = "move"
        /\ \E f, t \in 1..Len(perm) :
              /\ f # t /\ MoveOk(orig, perm, f, t)
              /\ perm' = Rotate(perm, f, t)
              /\ hist' = [hist EXCEPT !.moves = Append(@, <<f - 1, t - 1>>)]
        /\ UNCHANGED <<orig, phase>>
Next == Choose \/ Move
View == <<orig, perm, phase>>

Inv_Sound  == phase = "move" => Sound(orig, perm)
Inv_Sem    == phase = "move" => SymExec(orig, perm) = SymExec(orig, Id(Len(orig)))
Inv_Bounds == phase = "move" => \A p \in 1..Len(perm) : Lower(orig, perm, p) <= p /\ p <= Upper(orig, perm, p)
Inv_Swap   == phase = "move" => \A p \in 1..(Len(perm) - 1) :
                 Independent(orig, perm, p) => MoveOk(orig, perm, p, p + 1) /\ MoveOk(orig, perm, p + 1, p)
\* the bounds and the rotation in the form used by the unbounded proof spec/proof/DepsProof.tla
Inv_BoundsForm == phase = "move" => \A f, t \in 1..Len(perm) :
    MoveOk(orig, perm, f, t) <=>
       /\ \A q \in 1..Len(orig) : Conflict(orig, q, perm[f]) => Pos(perm, q) < t
       /\ \A q \in 1..Len(orig) : Conflict(orig, perm[f], q) => t < Pos(perm, q)
Inv_RotateForm == phase = "move" => \A f, t \in 1..Len(perm) : \A y \in 1..Len(perm) :
    Pos(Rotate(perm, f, t), y) =
       (IF y = perm[f] THEN t
        ELSE IF f < Pos(perm, y) /\ Pos(perm, y) <= t THEN Pos(perm, y) - 1
        ELSE IF t <= Pos(perm, y) /\ Pos(perm, y) < f THEN Pos(perm, y) + 1
        ELSE Pos(perm, y))
Dump == (Gen /\ phase = "move") => PrintT(<<"HIST", ToJson(hist)>>)
=============================================================================
