------------------------------- MODULE UI_MC -------------------------------
(* The navigation state machine of the disassembler on a small listing:    *)
(* every sequence of cursor commands keeps the cursor on a line of the     *)
(* listing, a failing command leaves it unchanged, find never stays on the *)
(* cursor line when another line matches, and the rendering window of any  *)
(* granted height lies inside the listing.                                 *)
EXTENDS UI
CONSTANTS Len0
Vals == {0, 1, 2, Len0 - 1, Len0, Len0 + 1, -1}
HitSets == {{}, {0}, {3}, {0, Len0 - 1}, {2, 3, 4}, {Len0 - 1}}
VARIABLES cur, last
vars == <<cur, last>>
Args == {[kind |-> "num", v |-> v] : v \in Vals} \cup {[kind |-> "bad", v |-> 0]}
Init == cur = 0 /\ last = [ok |-> TRUE, cursor |-> 0]
Next == \/ \E a \in Args : last' = Down(Len0, cur, a) /\ cur' = last'.cursor
        \/ \E a \in Args : last' = Up(Len0, cur, a) /\ cur' = last'.cursor
        \/ \E a \in Args : last' = Goto(Len0, cur, a) /\ cur' = last'.cursor
        \/ \E h \in HitSets : last' = Find(Len0, cur, h) /\ cur' = last'.cursor
Inv_Cursor == cur \in 0..(Len0 - 1)
Inv_Find   == \A h \in HitSets : LET r == Find(Len0, cur, h) IN
                 /\ r.ok => r.cursor \in h /\ r.cursor # cur
                 /\ ~r.ok => r.cursor = cur /\ h \subseteq {cur}
\* the window the listing view shows for a granted height n: it starts at most
\* floor(n / (phi + 1)) lines above the cursor and never leaves the listing
Window(n) == LET b == IF cur - (n * 1000) \div 2618 < 0 THEN 0 ELSE cur - (n * 1000) \div 2618
             IN [begin |-> b, end |-> IF b + n > Len0 THEN Len0 ELSE b + n]
Inv_Window == \A n \in 5..(Len0 + 2) : LET w == Window(n) IN
                 w.begin <= cur /\ cur < w.end /\ w.end - w.begin <= n /\ w.end <= Len0
=============================================================================
