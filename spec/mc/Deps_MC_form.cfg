INIT Init
NEXT Next
VIEW View
INVARIANT Inv_BoundsForm
INVARIANT Inv_RotateForm
CONSTANT MaxLen = 3
CONSTANT Gen = FALSE
CONSTANT KindSet = {1, 2, 3, 4, 5, 6, 7, 8, 9, 10, 11, 12, 13, 14, 15, 16, 17, 18}
CHECK_DEADLOCK FALSE
