INIT Init
NEXT Next
INVARIANT Inv_Cursor
INVARIANT Inv_Find
INVARIANT Inv_Window
CONSTANT Len0 = 9
CHECK_DEADLOCK FALSE
