INIT Init
NEXT Next
INVARIANT Inv_Stack
INVARIANT Inv_Cursor
INVARIANT Inv_Emu
INVARIANT Inv_Marks
CONSTANT Sizes <- Sizes213
CHECK_DEADLOCK FALSE
