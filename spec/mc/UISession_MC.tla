---------------------------- MODULE UISession_MC ----------------------------
(* The console UI as one state machine over a small listing: the mode      *)
(* stack, the disassembler's cursor and its line marks, driven by every    *)
(* command line class.  It uses the operators the trace specification      *)
(* evaluates (UI!ModeAfter, Down/Up/Goto/Find, MarksAfterMove,             *)
(* MarksAfterBounds), so what TLC establishes here holds for the oracle    *)
(* the real UI is compared with:                                           *)
(*   - the mode stack is always a prefix of app / emulate / memory view     *)
(*     and the emulator is only entered from an instruction line           *)
(*   - the cursor stays on a line of the listing                           *)
(*   - marks stay on lines of the listing (for ANY bounds inside the       *)
(*     block: the structure "header, instructions, blank line" is what     *)
(*     makes lower-1 and upper+1 valid line numbers), at most two at a     *)
(*     time, "vvv" strictly above "^^^", and a refused command with bad    *)
(*     line numbers changes nothing                                        *)
(***************************************************************************)
EXTENDS UI, FiniteSets
CONSTANTS Sizes                 \* instructions per block
Sizes213 == <<2, 1, 3>>
Sizes14  == <<1, 4>>
Proj == [p \in 1..Len(Sizes) |-> [begin |-> "a", ins |-> [k \in 1..Sizes[p] |-> [text |-> "t", bytes |-> "b"]]]]
Lst  == Listing(Proj)
Len0 == Len(Lst)
Lines == 0..(Len0 + 1)          \* line numbers a user may type: inside and just outside the listing

VARIABLES stack, cur, marks, last
vars == <<stack, cur, marks, last>>

Num(v) == [kind |-> "num", v |-> v]
OnInstr == Lst[cur + 1].kind = "instr"
Top == IF Len(stack) = 0 THEN "" ELSE stack[Len(stack)]

Init == stack = <<"app">> /\ cur = 0 /\ marks = {} /\ last = "init"

\* a line of input that only the mode stack reacts to
Line(toks) == /\ Len(stack) > 0
              /\ stack' = ModeAfter(stack, toks, OnInstr)
              /\ UNCHANGED <<cur, marks>> /\ last' = "line"
Nav == /\ Top = "app"
       /\ \E v \in Lines \cup {-1} :
            \/ cur' = Down(Len0, cur, Num(v)).cursor
            \/ cur' = Up(Len0, cur, Num(v)).cursor
            \/ cur' = Goto(Len0, cur, Num(v)).cursor
       /\ UNCHANGED <<stack, marks>> /\ last' = "nav"
FindCmd == /\ Top = "app"
           /\ \E h \in SUBSET {0, 2, Len0 - 1} : cur' = Find(Len0, cur, h).cursor
           /\ UNCHANGED <<stack, marks>> /\ last' = "find"
MoveCmd == /\ Top = "app"
           /\ \E f, t \in Lines : \E acc \in BOOLEAN :
                marks' = MarksAfterMove(marks, Len0, f, t, acc)
           /\ UNCHANGED <<stack, cur>> /\ last' = "move"
\* the bounds of instruction k (1-based) of a block with n instructions: any lo <= k-1 <= up <= n-1 (0-based, inclusive);
\* one pair (lo, up) is chosen and clipped to every instruction
MaxSize == CHOOSE m \in {Sizes[p] : p \in 1..Len(Sizes)} : \A q \in 1..Len(Sizes) : Sizes[q] <= m
BoundsCmd == /\ Top = "app"
             /\ \E ln \in Lines : \E lo, up \in 0..(MaxSize - 1) :
                  LET bnds == [p \in 1..Len(Sizes) |->
                                 [lo |-> [k \in 1..Sizes[p] |-> IF lo <= k - 1 THEN lo ELSE k - 1],
                                  up |-> [k \in 1..Sizes[p] |-> IF up >= k - 1 /\ up <= Sizes[p] - 1 THEN up ELSE k - 1]]]
                  IN marks' = MarksAfterBounds(marks, Lst, bnds, ln)
             /\ UNCHANGED <<stack, cur>> /\ last' = "bounds"

Next == \/ \E toks \in {<<>>, <<"q">>, <<"quit">>, <<"q", "x">>, <<"e">>, <<"emulate">>, <<"e", "x">>, <<"m", "k">>,
                        <<"memory", "k">>, <<"m">>, <<"s">>, <<"nosuch">>} : Line(toks)
        \/ Nav \/ FindCmd \/ MoveCmd \/ BoundsCmd

Inv_Stack  == stack \in {<<>>, <<"app">>, <<"app", "emulate">>, <<"app", "emulate", "memview(k)">>}
Inv_Cursor == cur \in 0..(Len0 - 1)
Inv_Emu    == Len(stack) >= 2 => OnInstr          \* the emulator was entered from an instruction line (cursor frozen in the model)
Inv_Marks  == /\ \A m \in marks : m[1] \in 0..(Len0 - 1)
              /\ Cardinality(marks) <= 2
              /\ \A m, n \in marks : m[2] = "vvv" /\ n[2] = "^^^" => m[1] < n[1]
              /\ \A m \in marks : /\ m[2] = "vvv" => Lst[m[1] + 1].kind \in {"header", "instr"}
                                  /\ m[2] = "^^^" => Lst[m[1] + 1].kind \in {"instr", "blank"}
                                  /\ m[2] = "!"   => Lst[m[1] + 1].kind \in {"header", "blank"}
=============================================================================
