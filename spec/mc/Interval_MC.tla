---------------------------- MODULE Interval_MC ----------------------------
(* Oracle hygiene for Interval: Normal is the inverse of SetOf on normal    *)
(* lists, for every subset of a small universe; and the design fact the     *)
(* layered memory relies on: missing(base) \cap missing(over) is the set of *)
(* bytes available in neither layer.                                        *)
EXTENDS Interval
CONSTANT U
VARIABLES s, t
Init == s \in SUBSET U /\ t \in SUBSET U
Next == UNCHANGED <<s, t>>
Inv == /\ IsNormal(Normal(s))
       /\ SetOf(Normal(s)) = s
       /\ SetOf(Union(Normal(s), Normal(t))) = s \cup t
       /\ SetOf(Complement(Normal(s), Normal(t))) = s \ t
       /\ SetOf(Intersect(Normal(s), Normal(t))) = s \cap t
       /\ IsNormal(Complement(Normal(s), Normal(t)))
       /\ Intersect(Complement(Normal(U), Normal(s)), Complement(Normal(U), Normal(t)))
            = Complement(Normal(U), Union(Normal(s), Normal(t)))
=============================================================================
