INIT Init
NEXT Next
VIEW View
INVARIANT Inv_Sound
INVARIANT Inv_Sem
INVARIANT Inv_Bounds
INVARIANT Inv_Swap
CONSTANT MaxLen = 4
CONSTANT Gen = FALSE
CONSTANT KindSet = {1, 2, 3, 6, 7, 9, 10, 12, 13, 14, 17, 18}
CHECK_DEADLOCK FALSE
