INIT Init
NEXT Next
INVARIANT Inv
CONSTANT Grid = {0, 128}
CONSTANT XS = {0, 1, 2, 7, 8, 15, 16, 17, 23, 24, 127, 128, 129, 254, 255}
CHECK_DEADLOCK FALSE
