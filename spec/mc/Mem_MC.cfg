INIT Init
NEXT Next
VIEW View
INVARIANT Inv_Refines
INVARIANT Inv_Pieces
INVARIANT Inv_Missing
INVARIANT Inv_Layered
CONSTANT N = 8
CONSTANT Widths = {1, 2, 4}
CONSTANT Kinds = {1}
CONSTANT MaxBase = 1
CONSTANT MaxOver = 3
CONSTANT Gen = FALSE
CHECK_DEADLOCK FALSE
