INIT Init
NEXT Next
INVARIANT Inv
CONSTANT U = {0, 1, 2, 3, 4, 5, 6}
CHECK_DEADLOCK FALSE
