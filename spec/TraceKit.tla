------------------------------ MODULE TraceKit ------------------------------
(***************************************************************************)
(* Shared skeleton of all trace specifications.                            *)
(*                                                                         *)
(* A trace is an ndjson file recorded by the Go harness from the real      *)
(* code: one event per public call (arguments, results, projected state).  *)
(* The file holds several independent traces ("shards", delimited by       *)
(* Bounds: shard s is lines Bounds[s]+1 .. Bounds[s+1]); every shard is    *)
(* one behaviour of the trace specification, so TLC's workers validate     *)
(* the shards in parallel.  Inside a shard the specification consumes one  *)
(* event per step.  Every event is judged by the family's                  *)
(*   Judge(ev, state)  =  [ok, why, exp, got, next]                        *)
(* - the verdict, and the specification's abstract state after the event.  *)
(* A failing event does not disable the specification: its verdict is kept *)
(* in `bad` and the rest of the trace is still examined.  When a shard's   *)
(* last line has been consumed, its verdict file is written; a shard whose *)
(* file is missing was not consumed - the driver treats that as an         *)
(* infrastructure error, never as a pass.                                  *)
(***************************************************************************)
EXTENDS Integers, Sequences, TLC, Json
CONSTANTS TraceFile, OutPrefix, BoundsFile

Bounds   == JsonDeserialize(BoundsFile)

TraceLog == ndJsonDeserialize(TraceFile)
Shards   == 1..(Len(Bounds) - 1)

Pass(next)                == [ok |-> TRUE,  why |-> "",  exp |-> "", got |-> "", next |-> next]
Fail(why, exp, got, next) == [ok |-> FALSE, why |-> why, exp |-> exp, got |-> got, next |-> next]

Verdict(line, ev, jj) == [line |-> line, case |-> ev.case, why |-> jj.why, exp |-> jj.exp, got |-> jj.got]

\* written when shard s has consumed its last line
Finish(s, line, badlist) ==
    line = Bounds[s + 1] =>
        JsonSerialize(OutPrefix \o ToString(s) \o ".json",
                      [shard |-> s, consumed |-> line, bad |-> badlist])
=============================================================================
