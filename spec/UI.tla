--------------------------------- MODULE UI ---------------------------------
(***************************************************************************)
(* The interactive console (internal/consoleui): what a command line does  *)
(* to the abstract UI state.                                               *)
(*                                                                         *)
(* A listing is a sequence of lines [kind, num, addr, text, bytes]         *)
(* (kind: "header" | "instr" | "blank").  The listing of a code model is:  *)
(* per block, in current block order, a header with its position number    *)
(* (from 1) and start address, then its instructions in current order;     *)
(* blocks separated by single blank lines; one blank line at the end.      *)
(*                                                                         *)
(* A command line is a sequence of tokens (the line split on spaces, empty *)
(* pieces dropped).  An argument token is described by [kind, v]:          *)
(*   kind "num"  a decimal integer the tool's parser accepts, value v      *)
(*               (v = -1: a value above every listing length, "huge")      *)
(*   kind "bad"  not a non-negative decimal integer                        *)
(*   kind "str"  any other text                                            *)
(***************************************************************************)
EXTENDS Integers, Sequences, FiniteSets, TLC

\* ---- the listing of a code projection -----------------------------------
\* proj: sequence (current block order) of [begin (hex text), ins: <<[text, bytes]>>]
Strip(l) == [kind |-> l.kind, num |-> l.num, addr |-> l.addr, text |-> l.text, bytes |-> l.bytes]
Blank == [kind |-> "blank", num |-> 0, addr |-> "", text |-> "", bytes |-> ""]
BlockLines(p, b) ==
    <<[kind |-> "header", num |-> p, addr |-> b.begin, text |-> "", bytes |-> ""]>> \o
    [k \in 1..Len(b.ins) |-> [kind |-> "instr", num |-> 0, addr |-> "", text |-> b.ins[k].text, bytes |-> b.ins[k].bytes]]
RECURSIVE ListingFrom(_,_)
ListingFrom(proj, p) ==
    IF p > Len(proj) THEN <<>>
    ELSE BlockLines(p, proj[p]) \o <<Blank>> \o ListingFrom(proj, p + 1)
Listing(proj) == ListingFrom(proj, 1)       \* every block is followed by one blank line (separator / final line)

\* line index (0-based) of instruction k (0-based) of the block at position p (0-based)
HeaderLine(lst, p) == CHOOSE i \in 1..Len(lst) : lst[i].kind = "header" /\ lst[i].num = p + 1
InstrLine(lst, p, k) == HeaderLine(lst, p) + k          \* 0-based: (HeaderLine - 1) + 1 + k

\* ---- line marks of the disassembler ----------------------------------------
\* marks: set of <<0-based line, mark>>.  "move" and "bounds" first check their line numbers (an error leaves the
\* marks alone), then clear all marks and set theirs; no other command touches marks.
MarksOf(lst) == {<<i - 1, lst[i].mark>> : i \in {k \in 1..Len(lst) : lst[k].mark # ""}}
MarksAfterMove(old, len, from, to, accepted) ==
    IF from >= len \/ to >= len THEN old
    ELSE IF accepted THEN {<<to, ">">>} \cup (IF from = to THEN {} ELSE {<<from, "<">>})
    ELSE {<<to, "!>">>} \cup (IF from = to THEN {} ELSE {<<from, "!<">>})
\* lst: the listing (marks irrelevant), bounds: [p |-> [lo, up]] the code's move bounds per block position
MarksAfterBounds(old, lst, bounds, ln) ==
    IF ln >= Len(lst) THEN old
    ELSE IF lst[ln + 1].kind # "instr" THEN {<<ln, "!">>}
    ELSE LET h == CHOOSE i \in 0..ln : lst[i + 1].kind = "header" /\ \A k \in (i + 1)..ln : lst[k + 1].kind = "instr"
             p == lst[h + 1].num
             k == ln - h            \* 1-based instruction index
         IN {<<h + 1 + bounds[p].lo[k] - 1, "vvv">>, <<h + 1 + bounds[p].up[k] + 1, "^^^">>}

\* ---- cursor commands of the disassembler ---------------------------------
\* each returns [ok, cursor]: ok = FALSE means "answered with an error, cursor unchanged"
NumOk(a) == a.kind = "num" /\ a.v >= 0
Down(len, cur, a) == IF NumOk(a) /\ cur + a.v < len THEN [ok |-> TRUE, cursor |-> cur + a.v] ELSE [ok |-> FALSE, cursor |-> cur]
Up(len, cur, a)   == IF NumOk(a) /\ cur - a.v >= 0 THEN [ok |-> TRUE, cursor |-> cur - a.v] ELSE [ok |-> FALSE, cursor |-> cur]
Goto(len, cur, a) == IF NumOk(a) /\ a.v < len THEN [ok |-> TRUE, cursor |-> a.v] ELSE [ok |-> FALSE, cursor |-> cur]
\* hits: set of 0-based line indices whose text matches the pattern
\* first match after the cursor, cyclically, the cursor line excluded
Find(len, cur, hits) ==
    LET cand == hits \ {cur}
        dist(i) == (i - cur + len) % len
    IN IF cand = {} THEN [ok |-> FALSE, cursor |-> cur]
       ELSE [ok |-> TRUE, cursor |-> CHOOSE i \in cand : \A k \in cand : dist(i) <= dist(k)]

\* ---- the mode stack ----------------------------------------------------------
\* stack: sequence of mode names, bottom first ("app" is the disassembler).  "emulate" enters the
\* emulator from an instruction line, "memory <key>" opens a memory view from the emulator, "quit"
\* leaves the current mode; every other line (and every line answered with an error) keeps the stack
EmuKeys  == {"emulate", "emul", "e"}
MemKeys  == {"memory", "mem", "m"}
QuitKeys == {"quit", "q"}
ModeAfter(stack, toks, onInstr) ==
    IF Len(toks) = 0 THEN stack
    ELSE LET top == stack[Len(stack)] c == toks[1] IN
         IF c \in QuitKeys /\ Len(toks) = 1 THEN SubSeq(stack, 1, Len(stack) - 1)
         ELSE IF top = "app" /\ c \in EmuKeys /\ Len(toks) = 1 /\ onInstr THEN Append(stack, "emulate")
         ELSE IF top = "emulate" /\ c \in MemKeys /\ Len(toks) = 2 THEN Append(stack, "memview(" \o toks[2] \o ")")
         ELSE stack

\* ---- the window a cursor view shows -------------------------------------------
\* granted n lines, a view over len lines with the cursor on line cur (0-based) shows the lines
\* from max(0, cur - floor(n / (phi + 1))) on, n of them or up to the last line
WindowBegin(cur, n) == LET b == cur - ((n * 1000000) \div 2618034) IN IF b < 0 THEN 0 ELSE b
WindowLines(cur, n, len) ==
    LET b == WindowBegin(cur, n)
        e == IF b + n > len THEN len ELSE b + n
    IN [i \in 1..(e - b) |-> b + i - 1]

\* line (0-based) of the instruction at code offset ip, given the block projection
\* [beginoff, n instructions of 4 bytes]; -1 if ip is not the start of an instruction
LineOfOffset(lst, blocks, ip) ==
    LET hit == {p \in 1..Len(blocks) : blocks[p].beginoff <= ip /\ ip < blocks[p].beginoff + 4 * blocks[p].n
                                         /\ (ip - blocks[p].beginoff) % 4 = 0}
    IN IF hit = {} THEN -1
       ELSE LET p == CHOOSE x \in hit : TRUE IN InstrLine(lst, p - 1, (ip - blocks[p].beginoff) \div 4)

\* ---- rendering -----------------------------------------------------------
\* a view that declares [min, max] lines (max = -1: unbounded) and is granted
\* n >= min lines writes at most n lines, exactly min if min = max
RenderOk(min, max, n, written) == written <= n /\ (min = max => written = min)

\* ---- the memory view -------------------------------------------------------
\* stored: set of addresses (small integers here); rows: sequence of
\* [ellipsis, addr]: one row per 16-byte window overlapping stored memory, in
\* address order, an ellipsis row between non-consecutive windows (ellipsis
\* rows at the very beginning / end are allowed, not required)
Windows(stored) == {a \div 16 : a \in stored}
DataRows(rows)  == SelectSeq(rows, LAMBDA r : ~r.ellipsis)
RowsOk(stored, rows) ==
    LET dr == DataRows(rows) IN
    /\ {dr[i].win : i \in 1..Len(dr)} = Windows(stored)
    /\ \A i \in 1..(Len(dr) - 1) : dr[i].win < dr[i + 1].win
    /\ \A i \in 1..(Len(rows) - 1) :
          /\ ~(rows[i].ellipsis /\ rows[i + 1].ellipsis)
          /\ (~rows[i].ellipsis /\ ~rows[i + 1].ellipsis) => rows[i + 1].win = rows[i].win + 1
    /\ \A i \in 2..(Len(rows) - 1) :
          rows[i].ellipsis => rows[i + 1].win > rows[i - 1].win + 1
=============================================================================
