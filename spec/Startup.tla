------------------------------- MODULE Startup -------------------------------
(***************************************************************************)
(* Start-up of the program (cmd/mltwist): argument check, ELF loading,     *)
(* machine-code extraction, decoding, building the code model, entering    *)
(* the UI.  Every stage either proceeds or ends the program with a non-zero *)
(* status and an error message.  Outcomes:                                 *)
(*   "ui"     the interactive prompt appeared                              *)
(*   "error"  exit status # 0 and an error message on stderr               *)
(*   "crash"  panic / fatal error / killed by a signal                     *)
(*   "silent" exit without prompt and without message, or status 0         *)
(* For structured inputs the specification says which outcome; for          *)
(* arbitrary (corrupted) files it is "ui" or "error", never anything else. *)
(***************************************************************************)
EXTENDS Naturals, Sequences

Stages == <<"args", "open", "type", "code", "memory", "decode", "model", "ui">>

\* the stage at which a structured input must be refused ("ui": not refused)
FailsAt(class) ==
    CASE class \in {"noargs", "twoargs"}                         -> "args"
      [] class \in {"missing", "directory", "emptyfile", "textfile", "wrongclass", "bigendian"} -> "open"
      [] class \in {"rel", "core", "none"}                       -> "type"
      [] class \in {"noexec", "secoverlap"}                      -> "code"
      [] class \in {"noload", "segoverlap", "memszsmall", "hugememsz"} -> "memory"
      [] class \in {"undecodable", "truncword"}                  -> "decode"
      [] class \in {"entryoff", "entryout", "jumpout", "jumpmid"} -> "model"
      [] class = "valid"                                          -> "ui"
      [] OTHER                                                    -> "any"       \* corrupted files: no prediction

Allowed(class) ==
    IF FailsAt(class) = "ui" THEN {"ui"}
    ELSE IF FailsAt(class) = "any" THEN {"ui", "error"}
    ELSE {"error"}
=============================================================================
