------------------------------- MODULE ExprIR -------------------------------
(***************************************************************************)
(* The width-typed expression IR of mltwist (pkg/expr) and its meaning.    *)
(*                                                                         *)
(* An expression is a node of a hash-consed table (a DAG): `nodes` is a    *)
(* sequence in which every node's children have smaller indices.  Because  *)
(* the table is hash-consed by structure, two expressions are structurally *)
(* equal iff they are the same index.                                      *)
(*                                                                         *)
(*   [k |-> "c", w, b]        constant, bytes b (little endian), Len(b)=w  *)
(*   [k |-> "r", w, n]        register load of key n at width w            *)
(*   [k |-> "b", w, o, a]     binary operation o on a[1], a[2] at width w  *)
(*                            o: 1 Add 2 Lsh 3 Rsh 4 Mul 5 Div 6 Nand      *)
(*   [k |-> "l", w, a]        IF a[1] <u a[2] THEN a[3] ELSE a[4], width w *)
(*   [k |-> "m", w, n, a]     load of w bytes at address a[1] from memory  *)
(*                            space n; the address keeps its own width     *)
(*                                                                         *)
(* Meaning (package documentation of pkg/expr): every operation has a      *)
(* width; operands are zero-extended or truncated to it; the result has    *)
(* that width.  A register holds a whole value; a load of width w yields   *)
(* it adapted to w.  Memory is byte addressed, little endian.              *)
(***************************************************************************)
EXTENDS BV, FiniteSets

OpAdd == 1  OpLsh == 2  OpRsh == 3  OpMul == 4  OpDiv == 5  OpNand == 6

BinOp(o, x, y, w) ==
    CASE o = OpAdd  -> Add(x, y, w)
      [] o = OpLsh  -> Lsh(x, y, w)
      [] o = OpRsh  -> Rsh(x, y, w)
      [] o = OpMul  -> Mul(x, y, w)
      [] o = OpDiv  -> Div(x, y, w)
      [] o = OpNand -> Nand(x, y, w)

(***************************************************************************)
(* Environments.                                                           *)
(*   env.regs : record  key -> value (any width)                           *)
(*   env.mem  : record  key -> [seed, over]                                *)
(* A memory space is a total function of the address: the byte listed in   *)
(* `over` (a sequence of [a |-> address value, b |-> byte]) if present,    *)
(* otherwise a fixed arithmetic function of seed and address.              *)
(* Addresses are compared as numbers: trailing zero bytes are irrelevant.  *)
(***************************************************************************)
RECURSIVE Strip(_)
Strip(v) == IF Len(v) > 0 /\ v[Len(v)] = 0 THEN Strip(SubSeq(v, 1, Len(v) - 1)) ELSE v

RECURSIVE HashRec(_,_,_)
HashRec(v, i, acc) == IF i > Len(v) THEN acc
                      ELSE HashRec(v, i + 1, (acc * 31 + v[i] * (2 * i + 1) + i) % 65521)
DefaultByte(seed, a) == (HashRec(a, 1, seed + 7) \div 3) % 256

RECURSIVE OverLookup(_,_,_)
OverLookup(over, a, i) == IF i > Len(over) THEN -1
                          ELSE IF Strip(over[i].a) = a THEN over[i].b
                          ELSE OverLookup(over, a, i + 1)

MemByte(m, addr) ==
    Let1(Strip(addr), LAMBDA a :
       Let1(OverLookup(m.over, a, 1), LAMBDA o :
            IF o >= 0 THEN o ELSE DefaultByte(m.seed, a)))

\* w bytes starting at address addr (a value of any width); address
\* arithmetic does not wrap inside the address's own width + 1 byte.
MemRead(m, addr, w) ==
    Let1(addr, LAMBDA a0 :
       TLCEval([k \in 1..w |-> MemByte(m, Add(a0, FromNat(k - 1, 2), Len(a0) + 1))]))

RegVal(env, key, w) == Adapt(env.regs[key], w)

(***************************************************************************)
(* Denotation: the value of every node of the table under env.             *)
(***************************************************************************)
EvalNode(n, vals, env) ==
    CASE n.k = "c" -> Adapt(n.b, n.w)
      [] n.k = "r" -> RegVal(env, n.n, n.w)
      [] n.k = "b" -> BinOp(n.o, vals[n.a[1]], vals[n.a[2]], n.w)
      [] n.k = "l" -> IF Ltu(vals[n.a[1]], vals[n.a[2]], n.w)
                      THEN Adapt(vals[n.a[3]], n.w)
                      ELSE Adapt(vals[n.a[4]], n.w)
      [] n.k = "m" -> MemRead(env.mem[n.n], vals[n.a[1]], n.w)

EvalAll(nodes, env) ==
    FoldLeft(LAMBDA vals, i : Let1(EvalNode(nodes[i], vals, env), LAMBDA v : Append(vals, v)),
             <<>>, Idx(Len(nodes)))

\* Evaluation without an environment: register and memory loads evaluate to
\* zero.  Meaningful exactly for the nodes that constant folding reduces to a
\* constant (their value does not depend on any load).
NoEnv == [regs |-> <<>>, mem |-> <<>>]
EvalNoEnv(nodes) ==
    FoldLeft(LAMBDA vals, i :
               Let1(IF nodes[i].k \in {"r", "m"} THEN Zeros(nodes[i].w) ELSE EvalNode(nodes[i], vals, NoEnv),
                    LAMBDA v : Append(vals, v)),
             <<>>, Idx(Len(nodes)))

(***************************************************************************)
(* Structure.                                                              *)
(***************************************************************************)
Children(n) == IF n.k \in {"b", "l", "m"} THEN {n.a[i] : i \in 1..Len(n.a)} ELSE {}

WellFormed(nodes) ==
    \A i \in 1..Len(nodes) :
       /\ nodes[i].w \in 1..255
       /\ \A c \in Children(nodes[i]) : c \in 1..(i - 1)
       /\ nodes[i].k = "c" => Len(nodes[i].b) = nodes[i].w
       /\ nodes[i].k = "b" => nodes[i].o \in 1..6 /\ Len(nodes[i].a) = 2
       /\ nodes[i].k = "l" => Len(nodes[i].a) = 4
       /\ nodes[i].k = "m" => Len(nodes[i].a) = 1

RECURSIVE ReachRec(_,_,_)
ReachRec(nodes, i, S) ==
    IF i = 0 THEN S
    ELSE IF i \in S THEN ReachRec(nodes, i - 1, S \cup Children(nodes[i]))
    ELSE ReachRec(nodes, i - 1, S)
\* indices of all subexpressions of root (root included)
Reach(nodes, root) == ReachRec(nodes, root, {root})

IsConst(nodes, i)  == nodes[i].k = "c"
HasKind(nodes, root, kind) == \E i \in Reach(nodes, root) : nodes[i].k = kind
\* an operation all of whose (deciding) operands are constants
ConstOnlyOp(nodes, i) ==
    \/ nodes[i].k = "b" /\ IsConst(nodes, nodes[i].a[1]) /\ IsConst(nodes, nodes[i].a[2])
    \/ nodes[i].k = "l" /\ IsConst(nodes, nodes[i].a[1]) /\ IsConst(nodes, nodes[i].a[2])
HasConstOnlyOp(nodes, root) == \E i \in Reach(nodes, root) : ConstOnlyOp(nodes, i)
\* built only from constants (no register or memory load anywhere)
AllConst(nodes, root) == \A i \in Reach(nodes, root) : nodes[i].k \in {"c", "b", "l"}

\* the width gadget of exprtools: Add(e, const 0 of width 1) at width w
IsWidthGadget(nodes, i) ==
    /\ nodes[i].k = "b" /\ nodes[i].o = OpAdd
    /\ nodes[nodes[i].a[2]].k = "c" /\ nodes[nodes[i].a[2]].b = <<0>>

(***************************************************************************)
(* Pre-order listing of the *tree* unfolding of root (with repetitions),   *)
(* as the sequence of node indices visited.                                *)
(***************************************************************************)
RECURSIVE PreOrder(_,_)
RECURSIVE PreOrderSeq(_,_,_)
PreOrderSeq(nodes, cs, i) ==
    IF i > Len(cs) THEN <<>> ELSE PreOrder(nodes, cs[i]) \o PreOrderSeq(nodes, cs, i + 1)
PreOrder(nodes, root) ==
    <<root>> \o (IF nodes[root].k \in {"b", "l", "m"}
                 THEN PreOrderSeq(nodes, nodes[root].a, 1) ELSE <<>>)

\* number of nodes of the tree unfolding (may be large for DAGs)
RECURSIVE TreeSizeRec(_,_,_)
TreeSizeRec(nodes, i, sizes) ==
    IF i > Len(nodes) THEN sizes
    ELSE Let1(nodes[i], LAMBDA n :
         TreeSizeRec(nodes, i + 1,
            Append(sizes,
               IF n.k \in {"b", "l", "m"}
               THEN 1 + (IF Len(n.a) >= 1 THEN sizes[n.a[1]] ELSE 0)
                      + (IF Len(n.a) >= 2 THEN sizes[n.a[2]] ELSE 0)
                      + (IF Len(n.a) >= 3 THEN sizes[n.a[3]] ELSE 0)
                      + (IF Len(n.a) >= 4 THEN sizes[n.a[4]] ELSE 0)
               ELSE 1)))
=============================================================================
