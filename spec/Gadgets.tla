------------------------------ MODULE Gadgets ------------------------------
(***************************************************************************)
(* The documented function of every exprtools gadget, as mathematics over  *)
(* BV.  Written from the doc-comments of pkg/expr/exprtools, not from the  *)
(* expression trees the gadgets build.                                     *)
(*                                                                         *)
(* a is the tuple of operand *values* (each with the width of its operand  *)
(* expression), w the gadget's width argument, bit the bit count of        *)
(* MaskBits.  Domain: value operands have width w unless the doc-comment   *)
(* defines the mixed case (Sub, Negate, bit operations, width gadget and   *)
(* the selected branches are "adapted to w" by the general width rule).    *)
(***************************************************************************)
EXTENDS BV

\* Truncating signed division of w-byte values.
SDiv(x, y, w) ==
    IF IsZero(Adapt(y, w)) THEN AllOnes(w)
    ELSE Let1(Div(Abs(x, w), Abs(y, w), w), LAMBDA q :
           IF IsNeg(x, w) # IsNeg(y, w) THEN Neg(q, w) ELSE q)
\* Signed remainder with the test-suite's convention: |x| mod |y| (|x| when
\* y = 0), negated iff exactly one operand is negative.
SModSuite(x, y, w) ==
    Let1(Mod(Abs(x, w), Abs(y, w), w), LAMBDA r :
           IF IsNeg(x, w) # IsNeg(y, w) THEN Neg(r, w) ELSE r)
\* Signed remainder with the sign of the dividend (RISC-V, C).
SRem(x, y, w) ==
    Let1(Mod(Abs(x, w), Abs(y, w), w), LAMBDA r :
           IF IsNeg(x, w) THEN Neg(r, w) ELSE r)

\* mask with the low `bits` bits set, at width w
LowMask(bits, w) == FromBits(TLCEval([k \in 1..(8 * w) |-> IF k <= bits THEN 1 ELSE 0]))

Truthy(v, w) == ~IsZero(Adapt(v, w))

Ref(g, w, a, bit) ==
    CASE g = "Negate"      -> Neg(a[1], w)
      [] g = "Sub"         -> Sub(a[1], a[2], w)
      [] g = "Abs"         -> Abs(a[1], w)
      [] g = "Ones"        -> AllOnes(w)
      [] g = "Mod"         -> Mod(a[1], a[2], w)
      [] g = "SignedMul"   -> Mul(Sext(a[1], w, 2 * w), Sext(a[2], w, 2 * w), 2 * w)
      [] g = "SignedDiv"   -> SDiv(a[1], a[2], w)
      [] g = "SignedMod"   -> SModSuite(a[1], a[2], w)
      [] g = "SignExtend"  -> SextBit(a[1], ShiftAmount(a[2], w), w)
      [] g = "RshA"        -> RshA(a[1], a[2], w)
      [] g = "BitNot"      -> NotV(a[1], w)
      [] g = "BitAnd"      -> AndV(a[1], a[2], w)
      [] g = "BitOr"       -> OrV(a[1], a[2], w)
      [] g = "BitXor"      -> XorV(a[1], a[2], w)
      [] g = "Bool"        -> IF IsZero(a[1]) THEN <<0>> ELSE <<1>>
      [] g = "Not"         -> IF IsZero(a[1]) THEN <<1>> ELSE <<0>>
      [] g = "BoolCond"    -> IF Truthy(a[1], w) THEN Adapt(a[2], w) ELSE Adapt(a[3], w)
      [] g = "Eq"          -> IF Adapt(a[1], w) = Adapt(a[2], w) THEN Adapt(a[3], w) ELSE Adapt(a[4], w)
      [] g = "Lts"         -> IF Lts(a[1], a[2], w) THEN Adapt(a[3], w) ELSE Adapt(a[4], w)
      [] g = "Leu"         -> IF ~Ltu(a[2], a[1], w) THEN Adapt(a[3], w) ELSE Adapt(a[4], w)
      [] g = "Les"         -> IF ~Lts(a[2], a[1], w) THEN Adapt(a[3], w) ELSE Adapt(a[4], w)
      [] g = "MaskBits"    -> AndV(a[1], LowMask(bit, w), w)
      [] g = "WidthGadget" -> Adapt(a[1], w)

\* width of the gadget's result
RefWidth(g, w) == IF g = "SignedMul" THEN 2 * w
                  ELSE IF g \in {"Bool", "Not"} THEN 1 ELSE w
=============================================================================
