------------------------------ MODULE Interval ------------------------------
(***************************************************************************)
(* Interval sets (internal/state/interval): a Map is a list of half-open    *)
(* intervals <<lo, hi>>; it denotes the set of integers lo..hi-1 of all its *)
(* intervals.  The normal form is the unique list that is sorted, disjoint, *)
(* non-adjacent and free of empty intervals.                                *)
(***************************************************************************)
EXTENDS Integers, Sequences, FiniteSets, SequencesExt, TLC

\* the integers an interval list denotes
SetOf(ivs) == UNION {ivs[i][1] .. (ivs[i][2] - 1) : i \in 1..Len(ivs)}

IsNormal(ivs) ==
    /\ \A i \in 1..Len(ivs) : ivs[i][1] < ivs[i][2]                  \* non-empty
    /\ \A i \in 1..(Len(ivs) - 1) : ivs[i][2] < ivs[i + 1][1]        \* sorted, disjoint, non-adjacent

\* the normal form of a finite set of integers
Starts(S) == {x \in S : x - 1 \notin S}
EndOf(S, x) == CHOOSE y \in S : y >= x /\ y + 1 \notin S /\ (x..y) \subseteq S
Normal(S) == LET st == SetToSortSeq(Starts(S), <)
             IN  [i \in 1..Len(st) |-> <<st[i], EndOf(S, st[i]) + 1>>]

\* set algebra the tool's MapUnion / MapComplement / MapIntersect must realise
Union(a, b)      == Normal(SetOf(a) \cup SetOf(b))
Complement(a, b) == Normal(SetOf(a) \ SetOf(b))
Intersect(a, b)  == Normal(SetOf(a) \cap SetOf(b))
=============================================================================
