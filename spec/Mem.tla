-------------------------------- MODULE Mem --------------------------------
(***************************************************************************)
(* Byte-addressed symbolic memory (internal/state/memory).                  *)
(*                                                                         *)
(* Abstract state: `cells`, a function from addresses to cells.  A cell     *)
(* says which byte (k, 0-based) of which write (vid, an index into the      *)
(* table of writes) is visible at the address, or that nothing was written  *)
(* there.  Every memory of the tool - Sparse, Bytes, Overlay - must behave  *)
(* like this function:                                                      *)
(*   Store(a, w, v)   the w addresses from a show bytes 0..w-1 of write v   *)
(*                    (the written value first adapted to w bytes)          *)
(*   Load(a, w)       succeeds iff all w addresses are present; denotes the *)
(*                    visible bytes, little endian                          *)
(*   Missing(a, w)    the absent addresses of the range, in normal form     *)
(*   Blocks()         the present addresses, in normal form                 *)
(* An Overlay of a base and an upper layer shows the upper cell if present  *)
(* and the base cell otherwise.                                             *)
(*                                                                         *)
(* The second half is implementation shaped: the interval map of cut        *)
(* expressions the Sparse memory keeps, with the splitting arithmetic of    *)
(* Store and the piece arithmetic Load must use.  Mem_MC checks that it     *)
(* refines the cells.                                                       *)
(***************************************************************************)
EXTENDS Interval

Absent       == [p |-> 0, vid |-> 0, k |-> 0]
Cell(vid, k) == [p |-> 1, vid |-> vid, k |-> k]

EmptyCells(N) == [x \in 0..(N - 1) |-> Absent]
StoreCells(cells, a, w, vid) ==
    [x \in DOMAIN cells |-> IF a <= x /\ x < a + w THEN Cell(vid, x - a) ELSE cells[x]]
Present(cells)          == {x \in DOMAIN cells : cells[x].p = 1}
Rng(a, w)             == a..(a + w - 1)
LoadOk(cells, a, w)     == Rng(a, w) \subseteq Present(cells)
MissingSet(cells, a, w) == Rng(a, w) \ Present(cells)
Layered(base, over)     == [x \in DOMAIN over |-> IF over[x].p = 1 THEN over[x] ELSE base[x]]

(***************************************************************************)
(* Implementation-shaped Sparse memory: a set of entries                   *)
(*   [lo, hi, vid, cb, ce]   addresses lo..hi-1 show bytes cb..ce-1 of vid  *)
(***************************************************************************)
Ov(ivs, a, w) == {i \in ivs : i.lo < a + w /\ a < i.hi}
IvStore(ivs, a, w, vid) ==
      {i \in ivs : i.hi <= a \/ a + w <= i.lo}                                   \* untouched
 \cup {[i EXCEPT !.hi = a, !.ce = i.cb + (a - i.lo)]
          : i \in {j \in Ov(ivs, a, w) : j.lo < a}}                              \* keeps its first bytes
 \cup {[i EXCEPT !.lo = a + w, !.cb = i.ce - (i.hi - (a + w))]
          : i \in {j \in Ov(ivs, a, w) : a + w < j.hi}}                          \* keeps its last bytes
 \cup {[lo |-> a, hi |-> a + w, vid |-> vid, cb |-> 0, ce |-> w]}

IvCell(ivs, x) ==
    IF \E i \in ivs : i.lo <= x /\ x < i.hi
    THEN LET i == CHOOSE j \in ivs : j.lo <= x /\ x < j.hi IN Cell(i.vid, i.cb + (x - i.lo))
    ELSE Absent

IvWellFormed(ivs) ==
    /\ \A i \in ivs : i.lo < i.hi /\ i.ce - i.cb = i.hi - i.lo /\ i.cb >= 0
    /\ \A i, j \in ivs : i # j => (i.hi <= j.lo \/ j.hi <= i.lo)

Max2(x, y) == IF x > y THEN x ELSE y
Min2(x, y) == IF x < y THEN x ELSE y
\* the pieces a Load of [a, a+w) is composed of: bytes from..from+len-1 of
\* write vid land at result offset `at`
IvLoadPieces(ivs, a, w) ==
    {[vid |-> i.vid, from |-> i.cb + (Max2(a, i.lo) - i.lo),
      len |-> Min2(a + w, i.hi) - Max2(a, i.lo), at |-> Max2(a, i.lo) - a] : i \in Ov(ivs, a, w)}
IvCovered(ivs, a, w) == \A x \in Rng(a, w) : \E i \in ivs : i.lo <= x /\ x < i.hi
IvMissing(ivs, a, w) == Normal({x \in Rng(a, w) : ~\E i \in ivs : i.lo <= x /\ x < i.hi})
IvBlocks(ivs)        == Normal(UNION {i.lo..(i.hi - 1) : i \in ivs})
=============================================================================
