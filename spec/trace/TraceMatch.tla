------------------------------ MODULE TraceMatch ------------------------------
(* Trace specification of opcode.NewMatcher / Matcher.Match (C19).           *)
EXTENDS Matcher, TraceKit
VARIABLES sh, l, j, bad
vars == <<sh, l, j, bad>>
Judge(ev, st) ==
    IF ev.panic # "" THEN Fail("panic", "no panic", ev.panic, <<>>)
    ELSE IF ev.ok # Buildable(ev.pats) THEN Fail("build", [ok |-> Buildable(ev.pats)], [ok |-> ev.ok], <<>>)
    ELSE IF ~ev.ok THEN Pass(<<>>)
    ELSE LET bads == {i \in 1..Len(ev.strs) : ev.res[i] # MatchOf(ev.pats, ev.strs[i])} IN
         IF bads = {} THEN Pass(<<>>)
         ELSE LET i == CHOOSE x \in bads : TRUE IN
              Fail("match", [s |-> ev.strs[i], m |-> MatchOf(ev.pats, ev.strs[i])], [m |-> ev.res[i]], <<>>)
Init == /\ sh \in Shards /\ l = Bounds[sh] + 1 /\ j = Pass(<<>>) /\ bad = <<>>
Next == /\ l <= Bounds[sh + 1]
        /\ j' = Judge(TraceLog[l], j.next)
        /\ l' = l + 1
        /\ bad' = IF j'.ok THEN bad ELSE Append(bad, Verdict(l, TraceLog[l], j'))
        /\ Finish(sh, l, bad')
        /\ UNCHANGED sh
Spec == Init /\ [][Next]_vars
=============================================================================
