------------------------------ MODULE TraceEmu ------------------------------
(***************************************************************************)
(* Trace specification of the emulator (internal/emulator), bound to the   *)
(* memory layering of cmd/mltwist (read-only program image under a sparse  *)
(* layer) and to an external state provider.                               *)
(*                                                                         *)
(* mode "rv"  : the program is RISC-V machine code; every step is compared *)
(*              with RV!Exec on the spec's own machine state (C03), the    *)
(*              provider discipline is checked (C04).                      *)
(* mode "abs" : the program is a block of synthetic instructions given by  *)
(*              their effects; every step is compared with the meaning of  *)
(*              the effects (ExprIR!Eval); the final states of the         *)
(*              original and of the reordered block must agree (C05).      *)
(*                                                                         *)
(* Abstract state: known registers (key -> value), known memory bytes      *)
(* ((space, address) -> byte; image bytes, written bytes, supplied bytes), *)
(* what the provider has been asked so far.  The emulator fills unknown    *)
(* state lazily: a step first asks for what it reads and does not know,    *)
(* then evaluates all effects in the pre-state and applies them; an        *)
(* instruction-pointer write is a jump, otherwise execution falls through. *)
(***************************************************************************)
EXTENDS RV, Interval, TraceKit
\* which aspect of a step is judged: "state" (C03, C05: reports and machine state; the provider's
\* answers are taken in whatever was asked) or "asks" (C04: the provider discipline)
CONSTANT Aspect

VARIABLES sh, l, j, bad
vars == <<sh, l, j, bad>>

IPKey   == "#r:w:ip"
NoState == [live |-> FALSE, run1 |-> <<>>]
SeqSet(s) == {s[i] : i \in 1..Len(s)}

\* ---- registers: sequence of [key, val]; the last entry for a key counts ------
RKnown(rs, key) == \E i \in 1..Len(rs) : rs[i].key = key
RGet(rs, key)   == rs[CHOOSE i \in 1..Len(rs) : rs[i].key = key /\ \A k \in (i + 1)..Len(rs) : rs[k].key # key].val
RSet(rs, key, v) == Append(SelectSeq(rs, LAMBDA r : r.key # key), [key |-> key, val |-> v])
\* the instruction pointer is compared as a number: the tool keeps it address-wide (8 bytes) after a fall-through and
\* XLEN-wide after a jump, which is the same register value on RV32
NormReg(k, v)   == IF k = IPKey THEN Strip(v) ELSE v
RAsSet(rs)      == {<<rs[i].key, NormReg(rs[i].key, rs[i].val)>> : i \in 1..Len(rs)}

\* ---- memory: sequence of [k, a, b, img], newest first; a is a stripped address
MKnown(mem, k, a) == \E i \in 1..Len(mem) : mem[i].k = k /\ mem[i].a = a
MGet(mem, k, a)   == mem[CHOOSE i \in 1..Len(mem) : mem[i].k = k /\ mem[i].a = a
                                  /\ \A q \in 1..(i - 1) : ~(mem[q].k = k /\ mem[q].a = a)].b
ByteAddr(addr, i) == Strip(Add(addr, FromNat(i, 2), 9))            \* address of byte i (0-based) of an access at addr
MPut(mem, k, addr, bytes, img) ==
    [i \in 1..Len(bytes) |-> [k |-> k, a |-> ByteAddr(addr, Len(bytes) - i), b |-> bytes[Len(bytes) - i + 1], img |-> img]] \o mem
\* ExprIR memory spaces built from the known bytes
MemEnv(mem, keys) ==
    [k \in keys |-> [seed |-> 0, over |-> SelectSeq(mem, LAMBDA e : e.k = k)]]
RegEnv(rs) == [k \in {rs[i].key : i \in 1..Len(rs)} |-> RGet(rs, k)]

AddrOff(st, v) ==       \* offset of address value v from the code base, -1 if outside
    Let1(Sub(Adapt(v, 8), st.base, 8), LAMBDA d : IF \A i \in 3..8 : d[i] = 0 THEN d[1] + 256 * d[2] ELSE -1)
OffAddr(st, off) == Add(st.base, FromNat(off, 2), 8)

\* ---- construction ----------------------------------------------------------
RECURSIVE WithBlocks(_,_,_,_)
WithBlocks(st, mem, bl, i) ==
    IF i > Len(bl) THEN mem
    ELSE WithBlocks(st, MPut(mem, "memory", OffAddr(st, bl[i].off), bl[i].bytes, TRUE), bl, i + 1)

Fresh(ev, old) ==
    Let1([live |-> TRUE, mode |-> ev.mode, variant |-> ev.variant, exts |-> ev.exts, base |-> ev.base,
          image |-> ev.image, layout |-> ev.layout, lo |-> ev.lo, hi |-> ev.hi, run |-> ev.run,
          run1 |-> IF ev.run = 2 THEN old.run1 ELSE <<>>,
          regs |-> <<>>, mem |-> <<>>, askedR |-> {}, askedM |-> {}], LAMBDA s0 :
      [s0 EXCEPT !.regs = RSet([i \in 1..Len(ev.regs0) |-> [key |-> ev.regs0[i].key, val |-> ev.regs0[i].val]],
                               IPKey, OffAddr(s0, ev.ip)),
                 !.mem  = WithBlocks(s0, WithBlocks(s0, <<>>, ev.image, 1), ev.data, 1)])

\* instruction starts of the code image: every 4th byte of every block
StartsOf(image) == UNION {{image[i].off + 4 * k : k \in 0..((Len(image[i].bytes) \div 4) - 1)} : i \in 1..Len(image)}
WordAt(image, off) ==
    Let1(CHOOSE i \in 1..Len(image) : image[i].off <= off /\ off < image[i].off + Len(image[i].bytes), LAMBDA i :
         SubSeq(image[i].bytes, off - image[i].off + 1, off - image[i].off + 4))
Decodable(ev) ==
    \A i \in 1..Len(ev.image) :
       /\ Len(ev.image[i].bytes) % 4 = 0
       /\ \A k \in 0..((Len(ev.image[i].bytes) \div 4) - 1) :
             Decode(ev.variant, ev.exts \in {"M", "MA"}, ev.exts \in {"A", "MA"},
                    WBits(SubSeq(ev.image[i].bytes, 4 * k + 1, 4 * k + 4))) # "invalid"

\* constant real jump targets of the RISC-V instruction at offset off (as offsets; -1: outside the window)
ConstTargetsAt(ev, off) ==
    LET wb   == WBits(WordAt(ev.image, off))
        name == Decode(ev.variant, ev.exts \in {"M", "MA"}, ev.exts \in {"A", "MA"}, wb)
        w    == ev.variant \div 8
        a    == Adapt(Add(ev.base, FromNat(off, 2), 8), w)
        tg   == CASE name = "jal" -> {Add(a, Imm(wb, "J", w), w)}
                  \* a branch comparing x0 with x0 has a statically known outcome
                  [] name \in {"beq", "bge", "bgeu"} /\ Rs1(wb) = 0 /\ Rs2(wb) = 0 -> {Add(a, Imm(wb, "B", w), w)}
                  [] name \in {"bne", "blt", "bltu"} /\ Rs1(wb) = 0 /\ Rs2(wb) = 0 -> {}
                  [] name \in {"beq", "bne", "blt", "bge", "bltu", "bgeu"} -> {Add(a, Imm(wb, "B", w), w)}
                  [] name = "jalr" /\ Rs1(wb) = 0 -> {AndV(Imm(wb, "I", w), <<254>> \o AllOnes(w - 1), w)}
                  [] OTHER -> {}
    IN {AddrOff([base |-> ev.base], t) : t \in tg \ (IF name \in {"beq", "bge", "bgeu"} /\ Rs1(wb) = 0 /\ Rs2(wb) = 0
                                                         THEN {} ELSE {Add(a, <<4>>, w)})}
TargetsOk(ev) == \A off \in StartsOf(ev.image) : ConstTargetsAt(ev, off) \subseteq StartsOf(ev.image)

JudgeNew(ev, old) ==
    IF ev.panic # "" THEN Fail("panic", "no panic", ev.panic, [NoState EXCEPT !.run1 = old.run1])
    ELSE IF ev.mode = "rv" /\ ev.err # (~Decodable(ev) \/ ev.entry \notin StartsOf(ev.image) \/ ~TargetsOk(ev))
      THEN Fail("construct", [err |-> ~ev.err], [err |-> ev.err], NoState)
    ELSE IF ev.err THEN Pass([NoState EXCEPT !.run1 = old.run1])
    ELSE Pass(Fresh(ev, old))

\* ---- the provider discipline (C04) -----------------------------------------
AskBytes(a) == {ByteAddr(a.addr, i) : i \in 0..(a.w - 1)}
\* first problem in the asks of a step, "" if none
AskProblem(ev, st) ==
    LET asks == ev.asks
        bad1 == {i \in 1..Len(asks) : asks[i].k = "r" /\ (RKnown(st.regs, asks[i].key) \/ asks[i].key \in st.askedR)}
        bad2 == {i \in 1..Len(asks) : asks[i].k = "m" /\
                   \E x \in AskBytes(asks[i]) : MKnown(st.mem, asks[i].key, x) \/ <<asks[i].key, x>> \in st.askedM}
        dup  == {i \in 1..Len(asks) : \E q \in 1..(i - 1) :
                   \/ (asks[i].k = "r" /\ asks[q].k = "r" /\ asks[i].key = asks[q].key)
                   \/ (asks[i].k = "m" /\ asks[q].k = "m" /\ asks[i].key = asks[q].key
                       /\ AskBytes(asks[i]) \cap AskBytes(asks[q]) # {})}
    IN IF bad1 # {} THEN [why |-> "askknownreg", got |-> asks[CHOOSE i \in bad1 : TRUE]]
       ELSE IF bad2 # {} THEN [why |-> "askknownmem", got |-> asks[CHOOSE i \in bad2 : TRUE]]
       ELSE IF dup # {} THEN [why |-> "asktwice", got |-> asks[CHOOSE i \in dup : TRUE]]
       ELSE [why |-> "", got |-> ""]

\* state after the provider's answers have been taken in
WithAnswers(ev, st) ==
    FoldLeft(LAMBDA s, i :
        Let1(ev.asks[i], LAMBDA a :
          IF a.k = "r" THEN [s EXCEPT !.regs = RSet(s.regs, a.key, a.val), !.askedR = @ \cup {a.key}]
          ELSE [s EXCEPT !.mem = MPut(s.mem, a.key, a.addr, a.val, FALSE),
                         !.askedM = @ \cup {<<a.key, x>> : x \in AskBytes(a)}]),
        st, Idx(Len(ev.asks)))

\* ---- mode rv: the reference step --------------------------------------------
HasM(st) == st.exts \in {"M", "MA"}
HasA(st) == st.exts \in {"A", "MA"}
W(st)    == st.variant \div 8
XVal(st, n) == IF RKnown(st.regs, XName(n)) THEN Adapt(RGet(st.regs, XName(n)), W(st)) ELSE Zeros(W(st))
MachineOf(ev, st) ==
    [x |-> [n \in 1..31 |-> XVal(st, n)],
     csr |-> IF ev.csrkey # "" /\ RKnown(st.regs, ev.csrkey) THEN Adapt(RGet(st.regs, ev.csrkey), W(st)) ELSE Zeros(W(st)),
     mem |-> [seed |-> 0, over |-> SelectSeq(st.mem, LAMBDA e : e.k = "memory")]]

IsJumpName(name) == name \in {"jal", "jalr", "beq", "bne", "blt", "bge", "bltu", "bgeu"}
IsCsr(name) == name \in {"csrrw", "csrrs", "csrrc", "csrrwi", "csrrsi", "csrrci"}
\* x registers an instruction reads, by format (x0 excluded)
XRead(name, wb) ==
    (CASE name \in {"lui", "auipc", "jal", "fence", "fence.i", "ecall", "ebreak", "csrrwi", "csrrsi", "csrrci"} -> {}
       [] name \in {"jalr", "csrrw", "csrrs", "csrrc", "addiw"} \cup DOMAIN LoadW \cup RegImm \cup ShImm \cup ShImmW -> {Rs1(wb)}
       [] name \in {"lr.w", "lr.d"} -> {Rs1(wb)}
       [] OTHER -> {Rs1(wb), Rs2(wb)}) \ {0}
\* memory read by the instruction: <<>> or <<[a, n]>>
MemReadOf(name, wb, m, w) ==
    IF name \in DOMAIN LoadW THEN <<[a |-> Add(X(m, Rs1(wb), w), Imm(wb, "I", w), w), n |-> LoadW[name]]>>
    ELSE IF Opc(wb) = 47 /\ AmoName(F5(wb)) # "sc" THEN <<[a |-> X(m, Rs1(wb), w), n |-> IF F3(wb) = 2 THEN 4 ELSE 8]>>
    ELSE <<>>

AccSet(accs) == {<<accs[i].key, Strip(accs[i].addr), accs[i].val>> : i \in 1..Len(accs)}
KvSet(kvs)   == {<<kvs[i].key, NormReg(kvs[i].key, kvs[i].val)>> : i \in 1..Len(kvs)}
KvKeys(kvs)  == {kvs[i].key : i \in 1..Len(kvs)}
KvGet(kvs, key) == kvs[CHOOSE i \in 1..Len(kvs) : kvs[i].key = key].val

\* instructions may have been moved inside their block: the layout gives, for the current
\* offset of an instruction, the offset it was lifted at (orig)
OrigOff(st, off) == LET ds == {i \in 1..Len(st.layout) : st.layout[i].addr = off} IN
                    IF ds = {} THEN off ELSE st.layout[CHOOSE i \in ds : TRUE].orig

JudgeStepRv(ev, st) ==
    Let1(AddrOff(st, RGet(st.regs, IPKey)), LAMBDA off :
    IF off \notin StartsOf(st.image)
      THEN (IF ev.panic # "" THEN Fail("panic", "no panic", ev.panic, [NoState EXCEPT !.run1 = st.run1])
            ELSE IF ev.err THEN Pass(st) ELSE Fail("noerror", "step fails outside decoded instructions", ev.rep, st))
    ELSE Let1(AskProblem(ev, st), LAMBDA ap :
      Let1(WithAnswers(ev, st), LAMBDA s1 :
      Let1(WBits(WordAt(st.image, OrigOff(st, off))), LAMBDA wb :
      Let1(Decode(st.variant, HasM(st), HasA(st), wb), LAMBDA name :
      Let1(MachineOf(ev, s1), LAMBDA m :
      \* the instruction means what it meant at its original address; falling through its original
      \* end means continuing behind its current position
      Let1(Exec(st.variant, Adapt(OffAddr(st, OrigOff(st, off)), W(st)), wb, name, m), LAMBDA r0 :
      Let1(IF Adapt(r0.ip, 8) = OffAddr(st, OrigOff(st, off) + 4) THEN [r0 EXCEPT !.ip = Adapt(OffAddr(st, off + 4), W(st))] ELSE r0, LAMBDA r :
      IF (\E i \in 1..Len(r.mw) : Len(Strip(Add(r.mw[i].a, FromNat(Len(r.mw[i].b), 1), 9))) > 8)
         \/ (\E q \in 1..Len(MemReadOf(name, wb, m, W(st))) :
               Len(Strip(Add(MemReadOf(name, wb, m, W(st))[q].a, FromNat(MemReadOf(name, wb, m, W(st))[q].n, 1), 9))) > 8)
      THEN Pass([NoState EXCEPT !.run1 = st.run1])       \* the access wraps around the address space: outside the property
      ELSE IF ev.panic # "" THEN Fail("panic", "no panic", ev.panic, [NoState EXCEPT !.run1 = st.run1])
      ELSE IF ev.err THEN Fail("steperror", "step succeeds at a decoded instruction", "error", st)
      ELSE
      Let1([s1 EXCEPT
              !.regs = RSet(IF r.csrw /\ ev.csrkey # "" THEN RSet(IF r.rd # 0 THEN RSet(s1.regs, XName(r.rd), r.rdv) ELSE s1.regs,
                                                                  ev.csrkey, r.csrv)
                            ELSE IF r.rd # 0 THEN RSet(s1.regs, XName(r.rd), r.rdv) ELSE s1.regs,
                            IPKey, Adapt(r.ip, 8)),
              !.mem = IF Len(r.mw) = 0 THEN s1.mem ELSE MPut(s1.mem, "memory", r.mw[1].a, r.mw[1].b, FALSE)], LAMBDA s2 :
        IF Aspect = "asks" THEN (IF ap.why # "" THEN Fail(ap.why, "only unknown state is asked for, once", ap.got, s2) ELSE Pass(s2))
        ELSE
        \* the report of the step
        Let1(MemReadOf(name, wb, m, W(st)), LAMBDA mr :
        \* reads that cannot influence any result are unobservable and need not be reported:
        \* add x0, a, b / lw x0 (no effect at all), division by x0 (result does not depend on rs1)
        Let1((r.rd = 0 /\ Len(r.mw) = 0 /\ ~r.csrw /\ ~IsJumpName(name))
             \/ (name \in {"div", "divu", "divw", "divuw"} /\ Rs2(wb) = 0), LAMBDA noeffect :
        IF ~((noeffect \/ XRead(name, wb) \subseteq {n \in 0..31 : XName(n) \in KvKeys(ev.rep.rl)})
             /\ KvKeys(ev.rep.rl) \subseteq {XName(n) : n \in XRead(name, wb)} \cup (IF IsCsr(name) THEN {ev.csrkey} ELSE {}))
          THEN Fail("regloads", [x |-> XRead(name, wb), csr |-> IsCsr(name)], ev.rep.rl, s2)
        ELSE IF \E i \in 1..Len(ev.rep.rl) : ~RKnown(s1.regs, ev.rep.rl[i].key) \/
                     ev.rep.rl[i].val # Adapt(RGet(s1.regs, ev.rep.rl[i].key), Len(ev.rep.rl[i].val))
          THEN Fail("regloadvalue", s1.regs, ev.rep.rl, s2)
        ELSE IF {<<ev.rep.rs[i].key, Adapt(ev.rep.rs[i].val, W(st))>> : i \in 1..Len(ev.rep.rs)}
                     # ((IF r.rd # 0 THEN {<<XName(r.rd), r.rdv>>} ELSE {})
                                      \cup (IF r.csrw /\ ev.csrkey # "" THEN {<<ev.csrkey, r.csrv>>} ELSE {})
                                      \cup (IF IsJumpName(name) THEN {<<IPKey, r.ip>>} ELSE {}))
          THEN Fail("regstores", [rd |-> r.rd, rdv |-> r.rdv, ip |-> r.ip, csrw |-> r.csrw, csrv |-> r.csrv], ev.rep.rs, s2)
        ELSE IF ~((noeffect \/ (r.rd = 0 /\ AmoName(F5(wb)) = "amoswap" /\ Opc(wb) = 47)) /\ ev.rep.ml = <<>>) /\
                AccSet(ev.rep.ml) # {<<"memory", Strip(mr[i].a), MemRead(m.mem, mr[i].a, mr[i].n)>> : i \in 1..Len(mr)}
          THEN Fail("memloads", [i \in 1..Len(mr) |-> [a |-> mr[i].a, v |-> MemRead(m.mem, mr[i].a, mr[i].n)]], ev.rep.ml, s2)
        ELSE IF AccSet(ev.rep.ms) # {<<"memory", Strip(r.mw[i].a), r.mw[i].b>> : i \in 1..Len(r.mw)}
          THEN Fail("memstores", r.mw, ev.rep.ms, s2)
        \* the state after the step
        ELSE IF KvSet(ev.regsa) # RAsSet(s2.regs)
          THEN Fail("regs", RAsSet(s2.regs) \ KvSet(ev.regsa), KvSet(ev.regsa) \ RAsSet(s2.regs), s2)
        ELSE Pass(s2))))))))))))

\* ---- mode abs: the meaning of the effects -----------------------------------
\* Effects are lifted at the original address of an instruction.  Writing the
\* instruction pointer with the address that followed the instruction there is
\* "no jump" (that is how the code model defines real jump targets), so for an
\* instruction that has been moved it means: continue behind it (ipfall).
ApplyEffs(d, vals, s1, ipfall, origfall) ==
    FoldLeft(LAMBDA s, i :
        Let1(d.effs[i], LAMBDA ef :
          IF ef.e = "reg" /\ ef.n = IPKey /\ Adapt(vals[ef.v], 8) = origfall
            THEN [s EXCEPT !.regs = RSet(s.regs, IPKey, Adapt(ipfall, ef.w))]
          ELSE IF ef.e = "reg" THEN [s EXCEPT !.regs = RSet(s.regs, ef.n, Adapt(vals[ef.v], ef.w))]
          ELSE [s EXCEPT !.mem = MPut(s.mem, ef.n, vals[ef.a], Adapt(vals[ef.v], ef.w), FALSE)]),
        IF \E i \in 1..Len(d.effs) : d.effs[i].e = "reg" /\ d.effs[i].n = IPKey THEN s1
        ELSE [s1 EXCEPT !.regs = RSet(s1.regs, IPKey, ipfall)],
        Idx(Len(d.effs)))

MemKeysOf(st, d) == {"memory"} \cup {st.mem[i].k : i \in 1..Len(st.mem)} \cup {d.nodes[i].n : i \in {q \in 1..Len(d.nodes) : d.nodes[q].k = "m"}}

JudgeStepAbs(ev, st) ==
    Let1(AddrOff(st, RGet(st.regs, IPKey)), LAMBDA off :
    IF off < st.lo \/ off >= st.hi THEN Pass(st)                      \* the block has been left: nothing runs
    ELSE Let1({i \in 1..Len(st.layout) : st.layout[i].addr = off}, LAMBDA ds :
      IF ds = {} THEN (IF ev.err THEN Pass(st) ELSE Fail("noerror", "step fails outside instructions", ev.regsa, st))
      ELSE IF ev.err THEN Fail("steperror", "step succeeds at an instruction", "error", st)
      ELSE Let1(AskProblem(ev, st), LAMBDA ap :
        Let1(WithAnswers(ev, st), LAMBDA s1 :
        Let1(st.layout[CHOOSE i \in ds : TRUE], LAMBDA d :
        \* a register the instruction reads is known or was asked for in this step; if not, the tool executed something
        \* else than the instruction at the specification's instruction pointer
        IF \E q \in 1..Len(d.nodes) : d.nodes[q].k = "r" /\ ~RKnown(s1.regs, d.nodes[q].n)
          THEN Fail("regs", "the registers read by the instruction at the instruction pointer are known or asked for",
                    ev.asks, [NoState EXCEPT !.run1 = st.run1]) ELSE
        Let1(EvalAll(d.nodes, [regs |-> RegEnv(s1.regs), mem |-> MemEnv(s1.mem, MemKeysOf(s1, d))]), LAMBDA vals :
        Let1(ApplyEffs(d, vals, s1, OffAddr(st, off + d.len), OffAddr(st, d.orig + d.len)), LAMBDA s2 :
          IF Aspect = "asks" THEN (IF ap.why # "" THEN Fail(ap.why, "only unknown state is asked for, once", ap.got, s2) ELSE Pass(s2))
          ELSE IF KvSet(ev.regsa) # RAsSet(s2.regs)
            THEN Fail("regs", RAsSet(s2.regs) \ KvSet(ev.regsa), KvSet(ev.regsa) \ RAsSet(s2.regs), s2)
          ELSE Pass(s2))))))))

\* ---- final states -------------------------------------------------------------
\* memory dump of the implementation: every dumped byte must be the known byte;
\* every written / supplied byte must be dumped
DumpBytes(mema) == UNION {{<<mema[i].key, ByteAddr(mema[i].addr, q - 1), mema[i].val[q]>> : q \in 1..Len(mema[i].val)} : i \in 1..Len(mema)}
SpecBytes(st)   == {<<st.mem[i].k, st.mem[i].a, MGet(st.mem, st.mem[i].k, st.mem[i].a)>> : i \in {q \in 1..Len(st.mem) : ~st.mem[q].img}}
JudgeFinal(ev, st) ==
    IF KvSet(ev.regsa) # RAsSet(st.regs) THEN Fail("finalregs", RAsSet(st.regs), KvSet(ev.regsa), st)
    ELSE IF ~(SpecBytes(st) \subseteq DumpBytes(ev.mema)) \/
            \E t \in DumpBytes(ev.mema) : ~MKnown(st.mem, t[1], t[2]) \/ MGet(st.mem, t[1], t[2]) # t[3]
      THEN Fail("finalmem", SpecBytes(st) \ DumpBytes(ev.mema), DumpBytes(ev.mema) \ SpecBytes(st), st)
    ELSE IF ev.run = 1
      THEN Pass([st EXCEPT !.run1 = [regs |-> KvSet(ev.regsa), mem |-> DumpBytes(ev.mema)]])
    ELSE IF ev.run = 2 /\ st.run1 # <<>> /\
            (st.run1.regs # KvSet(ev.regsa) \/ st.run1.mem # DumpBytes(ev.mema))
      THEN Fail("behaviour", [regs |-> st.run1.regs \ KvSet(ev.regsa), mem |-> st.run1.mem \ DumpBytes(ev.mema)],
                [regs |-> KvSet(ev.regsa) \ st.run1.regs, mem |-> DumpBytes(ev.mema) \ st.run1.mem], st)
    ELSE Pass(st)

Judge(ev, st) ==
    IF ev.op = "emunew" THEN JudgeNew(ev, st)
    ELSE IF ~st.live THEN Pass(st)
    ELSE IF ev.op = "step" /\ st.mode = "rv" THEN JudgeStepRv(ev, st)
    ELSE IF ev.panic # "" THEN Fail("panic", "no panic", ev.panic, [NoState EXCEPT !.run1 = st.run1])
    ELSE IF ev.op = "step" THEN JudgeStepAbs(ev, st)
    ELSE JudgeFinal(ev, st)

Init == /\ sh \in Shards /\ l = Bounds[sh] + 1 /\ j = Pass(NoState) /\ bad = <<>>
Next == /\ l <= Bounds[sh + 1]
        /\ j' = Judge(TraceLog[l], j.next)
        /\ l' = l + 1
        /\ bad' = IF j'.ok THEN bad ELSE Append(bad, Verdict(l, TraceLog[l], j'))
        /\ Finish(sh, l, bad')
        /\ UNCHANGED sh
Spec == Init /\ [][Next]_vars
=============================================================================
