------------------------------- MODULE TraceElf -------------------------------
(* Trace specification of the ELF loader (internal/elf) - C20.  One event  *)
(* per file: the abstract file the harness wrote, and what NewParser,      *)
(* MachineCode, Memory, Entrypoint and address lookups returned.           *)
EXTENDS Elf, TraceKit
VARIABLES sh, l, j, bad
vars == <<sh, l, j, bad>>

Loads(ev) == SelectSeq(ev.progs, IsLoad)
Codes(ev) == SelectSeq(ev.sects, IsCode)
AsBlocks(out) == [i \in 1..Len(out) |-> [addr |-> out[i].addr, bytes |-> out[i].bytes]]
\* empty blocks hold no byte: memory equality is about content (two empty segments at one address are one or two
\* empty blocks, indistinguishable by any lookup)
NonEmpty(bs) == SelectSeq(bs, LAMBDA b : Len(b.bytes) > 0)
SegBlocks(ev) == [i \in 1..Len(Loads(ev)) |-> SegBlock(Loads(ev)[i])]
SecBlocks(ev) == [i \in 1..Len(Codes(ev)) |-> SecBlock(Codes(ev)[i])]

Judge(ev, st) ==
    IF ~ev.writerok THEN Fail("harness", "file written as described", "debug/elf read-back differs", <<>>)
    ELSE IF ev.panic # "" THEN Fail("panic", "no panic", ev.panic, <<>>)
    ELSE IF MustRejectType(ev.etype) THEN (IF ev.newerr THEN Pass(<<>>) ELSE Fail("type", "rejected", ev.etype, <<>>))
    ELSE IF ev.newerr THEN Pass(<<>>)                         \* loading may always report an error
    ELSE IF ev.entryout # ev.entry THEN Fail("entry", ev.entry, ev.entryout, <<>>)
    \* program memory
    ELSE IF ~ev.memerr /\ \E i \in 1..Len(Loads(ev)) : Ltu(Loads(ev)[i].memsz, FromNat(Len(Loads(ev)[i].content), 3), 8)
      THEN Fail("memsz", "error (memory size below file size)", ev.mem, <<>>)
    ELSE IF ~ev.memerr /\ AnyOverlap(SegBlocks(ev)) THEN Fail("segoverlap", "overlapping segments rejected", ev.mem, <<>>)
    ELSE IF ~ev.memerr /\ NonEmpty(AsBlocks(ev.mem)) # SortedBlocks(NonEmpty(SegBlocks(ev)))
      THEN Fail("memory", SortedBlocks(NonEmpty(SegBlocks(ev))), ev.mem, <<>>)
    \* code image
    ELSE IF ~ev.codeerr /\ AnyOverlap(SecBlocks(ev)) THEN Fail("secoverlap", "overlapping sections rejected", ev.code, <<>>)
    ELSE IF ~ev.codeerr /\ AsBlocks(ev.code) # SortedBlocks(SecBlocks(ev)) THEN Fail("code", SortedBlocks(SecBlocks(ev)), ev.code, <<>>)
    ELSE LET badl == {i \in 1..Len(ev.lookups) :
                        \/ (~ev.codeerr /\ ev.lookups[i].code # Lookup(AsBlocks(ev.code), ev.lookups[i].addr))
                        \/ (~ev.memerr /\ ev.lookups[i].mem # Lookup(AsBlocks(ev.mem), ev.lookups[i].addr))} IN
         IF badl = {} THEN Pass(<<>>)
         ELSE LET i == CHOOSE x \in badl : TRUE IN
              Fail("lookup", [addr |-> ev.lookups[i].addr, code |-> Lookup(AsBlocks(ev.code), ev.lookups[i].addr),
                              mem |-> Lookup(AsBlocks(ev.mem), ev.lookups[i].addr)], ev.lookups[i], <<>>)

Init == /\ sh \in Shards /\ l = Bounds[sh] + 1 /\ j = Pass(<<>>) /\ bad = <<>>
Next == /\ l <= Bounds[sh + 1]
        /\ j' = Judge(TraceLog[l], j.next)
        /\ l' = l + 1
        /\ bad' = IF j'.ok THEN bad ELSE Append(bad, Verdict(l, TraceLog[l], j'))
        /\ Finish(sh, l, bad')
        /\ UNCHANGED sh
Spec == Init /\ [][Next]_vars
=============================================================================
