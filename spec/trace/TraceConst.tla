------------------------------ MODULE TraceConst ------------------------------
(***************************************************************************)
(* Trace specification of integer <-> constant conversion (pkg/expr        *)
(* const.go) - C27.  An integer travels as its 8-byte two's-complement     *)
(* encoding (sign extended from its Go type).  A constant of width w made  *)
(* from it stores the little-endian w-byte encoding and the constructor    *)
(* refuses exactly the integers outside the unsigned / signed range of w   *)
(* bytes.                                                                  *)
(***************************************************************************)
EXTENDS BV, TraceKit
VARIABLES sh, l, j, bad
vars == <<sh, l, j, bad>>

TypeW(t) == CASE t \in {"u8", "i8"} -> 1 [] t \in {"u16", "i16"} -> 2 [] t \in {"u32", "i32"} -> 4 [] OTHER -> 8
\* the w-byte encoding of the integer whose 8-byte encoding is v (w may exceed 8)
EncU(v, w) == Adapt(v, w)
EncS(v, w) == IF w <= 8 THEN Adapt(v, w) ELSE Sext(v, 8, w)
FitsU(v, w) == w >= 8 \/ \A i \in (w + 1)..8 : v[i] = 0
FitsS(v, w) == w >= 8 \/ Sext(Adapt(v, w), w, 8) = v

Judge(ev, st) ==
    IF ev.panic # "" THEN Fail("panic", "no panic", ev.panic, <<>>)
    ELSE CASE ev.op = "newuint" ->
              IF ev.panicked # ~FitsU(ev.val, ev.w) THEN Fail("range", [fails |-> ~FitsU(ev.val, ev.w)], [fails |-> ev.panicked], <<>>)
              ELSE IF ~ev.panicked /\ ev.out # EncU(ev.val, ev.w) THEN Fail("encoding", EncU(ev.val, ev.w), ev.out, <<>>)
              ELSE Pass(<<>>)
           [] ev.op = "newint" ->
              IF ev.panicked # ~FitsS(ev.val, ev.w) THEN Fail("range", [fails |-> ~FitsS(ev.val, ev.w)], [fails |-> ev.panicked], <<>>)
              ELSE IF ~ev.panicked /\ ev.out # EncS(ev.val, ev.w) THEN Fail("encoding", EncS(ev.val, ev.w), ev.out, <<>>)
              ELSE Pass(<<>>)
           [] ev.op = "fromuint" ->
              IF ev.out # EncU(ev.val, TypeW(ev.t)) THEN Fail("encoding", EncU(ev.val, TypeW(ev.t)), ev.out, <<>>) ELSE Pass(<<>>)
           [] ev.op = "fromint" ->
              IF ev.out # EncS(ev.val, TypeW(ev.t)) THEN Fail("encoding", EncS(ev.val, TypeW(ev.t)), ev.out, <<>>) ELSE Pass(<<>>)
           [] ev.op = "readuint" ->
              Let2(Adapt(Adapt(ev.b, TypeW(ev.t)), 8), \A i \in (TypeW(ev.t) + 1)..Len(ev.b) : ev.b[i] = 0, LAMBDA exp, fits :
                IF ev.out # exp THEN Fail("readback", exp, ev.out, <<>>)
                ELSE IF ev.fits # fits THEN Fail("fits", fits, ev.fits, <<>>)
                ELSE Pass(<<>>))
           [] ev.op = "withwidth" ->
              IF ev.out # Adapt(ev.b, ev.w) THEN Fail("withwidth", Adapt(ev.b, ev.w), ev.out, <<>>)
              ELSE IF ev.after # ev.b THEN Fail("mutated", ev.b, ev.after, <<>>)
              ELSE Pass(<<>>)
           [] ev.op = "alias" ->
              IF ev.out # Adapt(ev.b, ev.w) THEN Fail("encoding", Adapt(ev.b, ev.w), ev.out, <<>>)
              ELSE IF ev.after # ev.out THEN Fail("aliased", ev.out, ev.after, <<>>)
              ELSE Pass(<<>>)

Init == /\ sh \in Shards /\ l = Bounds[sh] + 1 /\ j = Pass(<<>>) /\ bad = <<>>
Next == /\ l <= Bounds[sh + 1]
        /\ j' = Judge(TraceLog[l], j.next)
        /\ l' = l + 1
        /\ bad' = IF j'.ok THEN bad ELSE Append(bad, Verdict(l, TraceLog[l], j'))
        /\ Finish(sh, l, bad')
        /\ UNCHANGED sh
Spec == Init /\ [][Next]_vars
=============================================================================
