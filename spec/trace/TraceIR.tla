------------------------------ MODULE TraceIR ------------------------------
(***************************************************************************)
(* Trace specification of the expression-IR transformations:               *)
(*   fold      exprtransform.ConstFold            (C09, C10)               *)
(*   setwidth  exprtransform.SetWidth             (C12)                    *)
(*   purge     exprtransform.PurgeWidthGadgets    (C12)                    *)
(*   poss      exprtransform.Possibilities        (C13)                    *)
(*   gadget    exprtools.<gadget>, also folded    (C11)                    *)
(* The transformations are pure: the abstract state is empty and every     *)
(* event is one action whose result is fully determined by ExprIR!Eval.    *)
(***************************************************************************)
EXTENDS ExprIR, Gadgets, TraceKit

VARIABLES sh, l, j, bad
vars == <<sh, l, j, bad>>

W(ev, i) == ev.nodes[i].w

\* first environment index on which P fails, 0 if none
FirstBad(ev, i0, P(_,_)) ==
    Let1({i \in 1..Len(ev.envs) : ~P(EvalAll(ev.nodes, ev.envs[i]), ev.envs[i])}, LAMBDA bads :
         IF bads = {} THEN 0 ELSE CHOOSE i \in bads : \A k \in bads : i <= k)

ValueMismatch(ev, k, expF(_), gotF(_)) ==
    Let1(EvalAll(ev.nodes, ev.envs[k]), LAMBDA vals :
         Fail("value", [env |-> k, v |-> expF(vals)], [v |-> gotF(vals)], <<>>))

JudgeFold(ev) ==
    IF W(ev, ev.out) # W(ev, ev.inp)
      THEN Fail("width", W(ev, ev.inp), W(ev, ev.out), <<>>)
    ELSE Let1(FirstBad(ev, 1, LAMBDA vals, env : vals[ev.out] = vals[ev.inp]), LAMBDA k :
      IF k > 0 THEN ValueMismatch(ev, k, LAMBDA vals : vals[ev.inp], LAMBDA vals : vals[ev.out])
      ELSE IF AllConst(ev.nodes, ev.inp) /\ ~IsConst(ev.nodes, ev.out)
        THEN Fail("notconst", "constant", ev.nodes[ev.out].k, <<>>)
      ELSE IF HasConstOnlyOp(ev.nodes, ev.out)
        THEN Fail("constop", "no operation on constants only", ev.out, <<>>)
      ELSE IF ev.out2 # ev.out
        THEN Fail("notidem", ev.out, ev.out2, <<>>)
      ELSE Pass(<<>>))

JudgeSetWidth(ev) ==
    IF W(ev, ev.out) # ev.w THEN Fail("width", ev.w, W(ev, ev.out), <<>>)
    ELSE Let1(FirstBad(ev, 1, LAMBDA vals, env : vals[ev.out] = Adapt(vals[ev.inp], ev.w)), LAMBDA k :
      IF k > 0 THEN ValueMismatch(ev, k, LAMBDA vals : Adapt(vals[ev.inp], ev.w), LAMBDA vals : vals[ev.out])
      ELSE Pass(<<>>))

JudgePurge(ev) ==
    IF W(ev, ev.out) # W(ev, ev.inp) THEN Fail("width", W(ev, ev.inp), W(ev, ev.out), <<>>)
    ELSE Let1(FirstBad(ev, 1, LAMBDA vals, env : vals[ev.out] = vals[ev.inp]), LAMBDA k :
      IF k > 0 THEN ValueMismatch(ev, k, LAMBDA vals : vals[ev.inp], LAMBDA vals : vals[ev.out])
      ELSE Pass(<<>>))

JudgePoss(ev) ==
    IF Len(ev.outs) = 0 THEN Fail("empty", "at least one alternative", 0, <<>>)
    ELSE IF \E i \in 1..Len(ev.outs) : W(ev, ev.outs[i]) # W(ev, ev.inp)
      THEN Fail("width", W(ev, ev.inp), [i \in 1..Len(ev.outs) |-> W(ev, ev.outs[i])], <<>>)
    ELSE IF \E i \in 1..Len(ev.outs) : HasKind(ev.nodes, ev.outs[i], "l")
      THEN Fail("conditional", "no conditional in an alternative", ev.outs, <<>>)
    ELSE Let1(FirstBad(ev, 1, LAMBDA vals, env :
                 \E i \in 1..Len(ev.outs) : vals[ev.outs[i]] = vals[ev.inp]), LAMBDA k :
      IF k > 0 THEN ValueMismatch(ev, k, LAMBDA vals : vals[ev.inp],
                                  LAMBDA vals : [i \in 1..Len(ev.outs) |-> vals[ev.outs[i]]])
      ELSE Pass(<<>>))

ArgVals(ev, vals) == [i \in 1..Len(ev.args) |-> vals[ev.args[i]]]
\* IntNegative only promises "nonzero iff negative", so it is judged by truth value.
GadgetOk(ev, vals, v) ==
    IF ev.g = "IntNegative" THEN IsZero(v) = ~IsNeg(vals[ev.args[1]], ev.w)
    ELSE v = Ref(ev.g, ev.w, ArgVals(ev, vals), ev.bit)
GadgetExp(ev, vals) ==
    IF ev.g = "IntNegative" THEN [nonzero |-> IsNeg(vals[ev.args[1]], ev.w)]
    ELSE Ref(ev.g, ev.w, ArgVals(ev, vals), ev.bit)
JudgeGadget(ev) ==
    IF W(ev, ev.out) # RefWidth(ev.g, ev.w) THEN Fail("width", RefWidth(ev.g, ev.w), W(ev, ev.out), <<>>)
    ELSE IF W(ev, ev.out2) # RefWidth(ev.g, ev.w) THEN Fail("width", RefWidth(ev.g, ev.w), W(ev, ev.out2), <<>>)
    ELSE Let1(FirstBad(ev, 1, LAMBDA vals, env :
                 GadgetOk(ev, vals, vals[ev.out]) /\ GadgetOk(ev, vals, vals[ev.out2])), LAMBDA k :
      IF k > 0 THEN ValueMismatch(ev, k, LAMBDA vals : GadgetExp(ev, vals),
                                  LAMBDA vals : <<vals[ev.out], vals[ev.out2]>>)
      ELSE IF (\A i \in 1..Len(ev.args) : IsConst(ev.nodes, ev.args[i])) /\ ~IsConst(ev.nodes, ev.out2)
        THEN Fail("notconst", "constant", ev.nodes[ev.out2].k, <<>>)
      ELSE Pass(<<>>))

\* one operator on constants, first operand ev.x, second operand every byte value
TableExp(ev, y) == IF ev.o = 0
                   THEN (IF Ltu(ev.x, <<y>>, ev.w) THEN Adapt(<<1>>, ev.w) ELSE Adapt(<<2>>, ev.w))
                   ELSE BinOp(ev.o, ev.x, <<y>>, ev.w)
JudgeTable(ev) ==
    IF Len(ev.res) # 256 THEN Fail("table", 256, Len(ev.res), <<>>)
    ELSE Let1({y \in 0..255 : TableExp(ev, y) # ev.res[y + 1]}, LAMBDA bads :
         IF bads = {} THEN Pass(<<>>)
         ELSE Let1(CHOOSE y \in bads : \A z \in bads : y <= z, LAMBDA y :
                   Fail("value", [y |-> y, v |-> TableExp(ev, y)], [v |-> ev.res[y + 1]], <<>>)))

Judge(ev, st) ==
    IF ev.panic # "" THEN Fail("panic", "no panic", ev.panic, <<>>)
    ELSE IF ev.inmut THEN Fail("mutated", "input unchanged", "input changed", <<>>)
    ELSE IF ~WellFormed(ev.nodes) THEN Fail("illformed", "well-formed expressions", "ill-formed", <<>>)
    ELSE CASE ev.op = "fold"     -> JudgeFold(ev)
           [] ev.op = "optable"  -> JudgeTable(ev)
           [] ev.op = "setwidth" -> JudgeSetWidth(ev)
           [] ev.op = "purge"    -> JudgePurge(ev)
           [] ev.op = "poss"     -> JudgePoss(ev)
           [] ev.op = "gadget"   -> JudgeGadget(ev)

Init == /\ sh \in Shards /\ l = Bounds[sh] + 1 /\ j = Pass(<<>>) /\ bad = <<>>
Next == /\ l <= Bounds[sh + 1]
        /\ j' = Judge(TraceLog[l], j.next)
        /\ l' = l + 1
        /\ bad' = IF j'.ok THEN bad ELSE Append(bad, Verdict(l, TraceLog[l], j'))
        /\ Finish(sh, l, bad')
        /\ UNCHANGED sh
Spec == Init /\ [][Next]_vars
=============================================================================
