------------------------------ MODULE TraceRV ------------------------------
(***************************************************************************)
(* Trace specification of the RISC-V front end (internal/riscv):           *)
(*   mode "decode"  acceptance and naming of a word            (C02)       *)
(*   mode "sem"     the lifted effects against RV!Exec         (C01)       *)
(*   mode "text"    what the instruction text names            (C25)       *)
(*   op   "pair"    two words shown with the same text must behave alike   *)
(* Every event is one call of Parser.Parse(addr, bytes).                   *)
(***************************************************************************)
EXTENDS RV, TraceKit

VARIABLES sh, l, j, bad
vars == <<sh, l, j, bad>>

IPKey == "#r:w:ip"
HasM(ev) == ev.exts \in {"M", "MA"}
HasA(ev) == ev.exts \in {"A", "MA"}
Wb(ev)   == WBits(ev.bytes)
W(ev)    == ev.variant \div 8

\* ---- decoding ------------------------------------------------------------
JudgeDecode(ev) ==
    IF Len(ev.bytes) < 4
    THEN (IF ev.err THEN Pass(<<>>) ELSE Fail("short", "rejected", ev.lname, <<>>))
    ELSE Let1(Decode(ev.variant, HasM(ev), HasA(ev), Wb(ev)), LAMBDA exp :
      IF exp = "invalid" THEN (IF ev.err THEN Pass(<<>>) ELSE Fail("accepted", "rejected", ev.lname, <<>>))
      ELSE IF ev.err THEN Fail("rejected", exp, "rejected", <<>>)
      ELSE IF ev.lname # exp THEN Fail("name", exp, ev.lname, <<>>)
      ELSE IF ev.bytelen # 4 THEN Fail("bytelen", 4, ev.bytelen, <<>>)
      ELSE Pass(<<>>))

\* ---- semantics -----------------------------------------------------------
\* the machine state of one sampled valuation, as RV!Exec wants it
MState(ev, st) ==
    [x   |-> [n \in 1..31 |-> IF XName(n) \in DOMAIN st.regs THEN st.regs[XName(n)] ELSE Zeros(W(ev))],
     csr |-> IF ev.csrkey # "" THEN st.regs[ev.csrkey] ELSE Zeros(W(ev)),
     mem |-> st.mem.memory]

\* final value of register `key` after applying the effects (all evaluated in
\* the pre-state `vals`, applied in order), or `old` if it is not written
FinalReg(ev, vals, key, old) ==
    FoldLeft(LAMBDA acc, i : IF ev.effs[i].e = "reg" /\ ev.effs[i].n = key
                             THEN Adapt(vals[ev.effs[i].v], ev.effs[i].w) ELSE acc,
             old, Idx(Len(ev.effs)))
Written(ev, key) == \E i \in 1..Len(ev.effs) : ev.effs[i].e = "reg" /\ ev.effs[i].n = key

\* memory writes of the effects / of the reference as a sequence of [a, b]
EffMemWrites(ev, vals) ==
    FoldLeft(LAMBDA acc, i : IF ev.effs[i].e = "mem"
                             THEN Append(acc, [a |-> Strip(vals[ev.effs[i].a]), b |-> Adapt(vals[ev.effs[i].v], ev.effs[i].w)])
                             ELSE acc, <<>>, Idx(Len(ev.effs)))
\* final byte at address x (stripped value) after a sequence of writes, -1 if untouched
WrittenByte(ws, x) ==
    FoldLeft(LAMBDA acc, i :
        Let1({k \in 1..Len(ws[i].b) : Strip(Add(ws[i].a, FromNat(k - 1, 1), 9)) = x}, LAMBDA ks :
             IF ks = {} THEN acc ELSE ws[i].b[CHOOSE k \in ks : TRUE]),
        -1, Idx(Len(ws)))
Touched(ws) == UNION {{Strip(Add(ws[i].a, FromNat(k - 1, 1), 9)) : k \in 1..Len(ws[i].b)} : i \in 1..Len(ws)}

\* compare the effects with the reference result r in state st; "" if equal
SemDiff(ev, st, r) ==
    Let1(EvalAll(ev.nodes, [regs |-> st.regs, mem |-> st.mem]), LAMBDA vals :
    Let1(W(ev), LAMBDA w :
      IF \E i \in 1..Len(ev.effs) : ev.effs[i].e = "reg" /\
            ev.effs[i].n \notin ({IPKey} \cup (IF r.rd # 0 THEN {XName(r.rd)} ELSE {})
                                   \cup (IF ev.csrkey # "" THEN {ev.csrkey} ELSE {}))
        THEN [why |-> "wrongreg", exp |-> r.rd, got |-> ev.effs]
      ELSE IF \E i \in 1..Len(ev.effs) : ev.effs[i].e = "mem" /\ ev.effs[i].n # "memory"
        THEN [why |-> "wrongmem", exp |-> "memory", got |-> ev.effs]
      ELSE IF r.rd # 0 /\ FinalReg(ev, vals, XName(r.rd), X(MState(ev, st), r.rd, w)) # r.rdv
        THEN [why |-> "rd", exp |-> r.rdv, got |-> FinalReg(ev, vals, XName(r.rd), X(MState(ev, st), r.rd, w))]
      ELSE IF FinalReg(ev, vals, IPKey, Add(Adapt(ev.addr, w), <<4>>, w)) # r.ip
        THEN [why |-> "ip", exp |-> r.ip, got |-> FinalReg(ev, vals, IPKey, Add(Adapt(ev.addr, w), <<4>>, w))]
      ELSE IF ev.csrkey # "" /\ FinalReg(ev, vals, ev.csrkey, Adapt(st.regs[ev.csrkey], w))
                                  # (IF r.csrw THEN r.csrv ELSE Adapt(st.regs[ev.csrkey], w))
        THEN [why |-> "csr", exp |-> r.csrv, got |-> FinalReg(ev, vals, ev.csrkey, Adapt(st.regs[ev.csrkey], w))]
      ELSE Let2(EffMemWrites(ev, vals), [i \in 1..Len(r.mw) |-> [a |-> Strip(r.mw[i].a), b |-> r.mw[i].b]], LAMBDA ews, rws :
           IF \E x \in Touched(ews) \cup Touched(rws) : WrittenByte(ews, x) # WrittenByte(rws, x)
           THEN [why |-> "mem", exp |-> rws, got |-> ews]
           ELSE [why |-> "", exp |-> "", got |-> ""])))

JudgeSem(ev) ==
    Let1(Decode(ev.variant, HasM(ev), HasA(ev), Wb(ev)), LAMBDA name :
      IF name = "invalid" \/ ev.err THEN Pass(<<>>)                 \* acceptance is C02's business
      ELSE IF "x0" \in {ev.keys[i] : i \in 1..Len(ev.keys)} THEN Fail("x0", "x0 is never read or written", ev.keys, <<>>)
      ELSE Let1([i \in 1..Len(ev.states) |->
                   SemDiff(ev, ev.states[i], Exec(ev.variant, Adapt(ev.addr, W(ev)), Wb(ev), name, MState(ev, ev.states[i])))],
                LAMBDA ds :
           Let1({i \in 1..Len(ds) : ds[i].why # ""}, LAMBDA bads :
             IF bads = {} THEN Pass(<<>>)
             ELSE Let1(CHOOSE i \in bads : \A k \in bads : i <= k, LAMBDA i :
                  Fail(ds[i].why, [state |-> i, v |-> ds[i].exp], [v |-> ds[i].got], <<>>)))))

\* ---- text ------------------------------------------------------------------
TokSet(ev) == {ev.toks[i] : i \in 2..Len(ev.toks)}
JudgeText(ev) ==
    Let1(Decode(ev.variant, HasM(ev), HasA(ev), Wb(ev)), LAMBDA name :
      IF name = "invalid" \/ ev.err THEN Pass(<<>>)
      ELSE IF Len(ev.toks) = 0 \/ ev.toks[1] # ev.name THEN Fail("mnemonic", name, ev.toks, <<>>)
      ELSE Let1(Relevant(ev.variant, Wb(ev), name), LAMBDA rel :
        IF \E i \in 1..Len(rel.regs) : XName(rel.regs[i]) \notin TokSet(ev)
          THEN Fail("register", [i \in 1..Len(rel.regs) |-> XName(rel.regs[i])], ev.toks, <<>>)
        ELSE IF rel.imm # {} /\ ~\E v \in rel.imm : ToString(v) \in TokSet(ev)
          THEN Fail("immediate", rel.imm, ev.toks, <<>>)
        ELSE IF name \in {"csrrwi", "csrrsi", "csrrci"} /\
                Cardinality({i \in 2..Len(ev.toks) : ev.toks[i] = ToString(Rs1(Wb(ev)))})
                   < (IF Rs1(Wb(ev)) \in rel.imm THEN 2 ELSE 1)
          THEN Fail("uimm", Rs1(Wb(ev)), ev.toks, <<>>)
        ELSE IF rel.mem /\ ~ev.paren THEN Fail("offsetbase", "offset(base)", ev.text, <<>>)
        ELSE IF rel.mem /\ (ev.toks[Len(ev.toks)] # XName(Rs1(Wb(ev))) \/ ev.toks[Len(ev.toks) - 1] \notin {ToString(v) : v \in rel.imm})
          THEN Fail("offsetbase", "offset(base)", ev.toks, <<>>)
        ELSE Pass(<<>>)))

\* two different words at the same address shown with the same text: their
\* lifted effects must agree on every sampled state (ev.a, ev.b: the two parses)
PairDiff(ev, st) ==
    Let2(EvalAll(ev.a.nodes, [regs |-> st.regs, mem |-> st.mem]),
         EvalAll(ev.b.nodes, [regs |-> st.regs, mem |-> st.mem]), LAMBDA va, vb :
      Let1({ev.a.effs[i].n : i \in {k \in 1..Len(ev.a.effs) : ev.a.effs[k].e = "reg"}} \cup
           {ev.b.effs[i].n : i \in {k \in 1..Len(ev.b.effs) : ev.b.effs[k].e = "reg"}}, LAMBDA keys :
        \/ \E k \in keys : FinalReg(ev.a, va, k, <<>>) # FinalReg(ev.b, vb, k, <<>>)
        \/ Let2(EffMemWrites(ev.a, va), EffMemWrites(ev.b, vb), LAMBDA wa, wbb :
             \E x \in Touched(wa) \cup Touched(wbb) : WrittenByte(wa, x) # WrittenByte(wbb, x))))
JudgePair(ev) ==
    IF \E i \in 1..Len(ev.states) : PairDiff(ev, ev.states[i])
    THEN Fail("sametext", "equal behaviour for equal text", [text |-> ev.a.text, w1 |-> ev.a.bytes, w2 |-> ev.b.bytes], <<>>)
    ELSE Pass(<<>>)

\* ---- exhaustive sweep: all 2^24 words with top byte ev.lo ---------------------
TopBit(ev, k) == (ev.lo \div (2 ^ (k - 24))) % 2
SweepExpected(ev) ==
    LET cs == Cubes(ev.variant, HasM(ev), HasA(ev))
        ms == {i \in 1..Len(cs) : \A k \in 24..31 : CubeBit(cs[i], k) \in {-1, TopBit(ev, k)}}
    IN {[name  |-> cs[i].name,
         count |-> 2 ^ Cardinality({k \in 0..23 : CubeBit(cs[i], k) = -1}),
         and   |-> FromBits([k \in 1..32 |-> IF k > 24 THEN TopBit(ev, k - 1)
                                              ELSE IF CubeBit(cs[i], k - 1) = 1 THEN 1 ELSE 0]),
         or    |-> FromBits([k \in 1..32 |-> IF k > 24 THEN TopBit(ev, k - 1)
                                              ELSE IF CubeBit(cs[i], k - 1) = 0 THEN 0 ELSE 1])] : i \in ms}
JudgeSweep(ev) ==
    Let2(SweepExpected(ev), {ev.names[i] : i \in 1..Len(ev.names)}, LAMBDA exp, got :
      IF exp = got THEN Pass(<<>>)
      ELSE Fail("sweep", (exp \ got), (got \ exp), <<>>))

\* ---- parser.Parse on a code image (C21) --------------------------------------
\* expected instruction positions: every block (in address order) tiled by 4-byte words
BlkOrder(image) == SetToSortSeq(1..Len(image), LAMBDA a, b : image[a].off < image[b].off)
Positions(image) ==
    FoldLeft(LAMBDA acc, bi : acc \o [k \in 1..((Len(image[bi].bytes) + 3) \div 4) |->
                                       [off |-> image[bi].off + 4 * (k - 1),
                                        bytes |-> SubSeq(image[bi].bytes, 4 * k - 3, IF 4 * k <= Len(image[bi].bytes) THEN 4 * k ELSE Len(image[bi].bytes))]],
             <<>>, BlkOrder(image))
PosBad(ev, p) == Len(p.bytes) < 4 \/ Decode(ev.variant, HasM(ev), HasA(ev), WBits(p.bytes)) = "invalid"
InsAsEvent(ev, x) == [variant |-> ev.variant, exts |-> ev.exts, addr |-> Add(ev.addr, FromNat(x.off, 2), 8), bytes |-> x.bytes,
                      nodes |-> x.nodes, effs |-> x.effs, keys |-> x.keys, csrkey |-> x.csrkey, states |-> x.states,
                      err |-> FALSE, lname |-> x.lname]
JudgeCode(ev) ==
    Let1(Positions(ev.image), LAMBDA ps :
      Let1(\E i \in 1..Len(ps) : PosBad(ev, ps[i]), LAMBDA fails :
        IF ev.err # fails THEN Fail("parseerr", [err |-> fails], [err |-> ev.err], <<>>)
        ELSE IF fails THEN Pass(<<>>)
        ELSE IF [i \in 1..Len(ev.ins) |-> [off |-> ev.ins[i].off, bytes |-> ev.ins[i].bytes]] # ps
          THEN Fail("tiling", ps, [i \in 1..Len(ev.ins) |-> [off |-> ev.ins[i].off, bytes |-> ev.ins[i].bytes]], <<>>)
        ELSE Let1([i \in 1..Len(ev.ins) |-> JudgeSem(InsAsEvent(ev, ev.ins[i]))], LAMBDA js :
             IF \A i \in 1..Len(js) : js[i].ok THEN Pass(<<>>)
             ELSE Let1(CHOOSE i \in 1..Len(js) : ~js[i].ok, LAMBDA i :
                  Fail("effects", [ins |-> i, why |-> js[i].why, v |-> js[i].exp], js[i].got, <<>>)))))

Judge(ev, st) ==
    IF ev.op = "pair" THEN JudgePair(ev)
    ELSE IF ev.op = "codeparse" THEN (IF ev.panic # "" THEN Fail("panic", "no panic", ev.panic, <<>>) ELSE JudgeCode(ev))
    ELSE IF ev.panic # "" THEN Fail("panic", "no panic", ev.panic, <<>>)
    ELSE IF ev.op = "sweep" THEN JudgeSweep(ev)
    ELSE IF ev.panic # "" THEN Fail("panic", "no panic", ev.panic, <<>>)
    ELSE CASE ev.mode = "decode" -> JudgeDecode(ev)
           [] ev.mode = "sem"    -> JudgeSem(ev)
           [] ev.mode = "text"   -> JudgeText(ev)

Init == /\ sh \in Shards /\ l = Bounds[sh] + 1 /\ j = Pass(<<>>) /\ bad = <<>>
Next == /\ l <= Bounds[sh + 1]
        /\ j' = Judge(TraceLog[l], j.next)
        /\ l' = l + 1
        /\ bad' = IF j'.ok THEN bad ELSE Append(bad, Verdict(l, TraceLog[l], j'))
        /\ Finish(sh, l, bad')
        /\ UNCHANGED sh
Spec == Init /\ [][Next]_vars
=============================================================================
