------------------------------ MODULE TraceDeps ------------------------------
(***************************************************************************)
(* Trace specification of the code model (internal/deps):                  *)
(*   new    deps.NewCode: basic-block partition (C08), dependency edges    *)
(*   move   Block.Move  : acceptance = reported bounds, rotation,          *)
(*                        addresses, lookups, edge order (C07);            *)
(*                        conflicting pairs stay ordered (C05, abstract);  *)
(*                        independent neighbours stay swappable (C06)      *)
(*   bmove  Code.Move   : permutes blocks only (C07)                       *)
(* The abstract state: per block (in address order) its start and the      *)
(* current order of instruction ids; the order of blocks; the dependency   *)
(* edges the implementation built (logged once, at creation).              *)
(***************************************************************************)
EXTENDS Deps, TraceKit, Eager

\* The judgement is a chain of classes (the first disagreement is the verdict).  A check that owns only some classes
\* sets Focus to them, so that a disagreement of another class in the same event cannot hide its own ({} = all).
CONSTANT Focus
On(c) == Focus = {} \/ c \in Focus

VARIABLES sh, l, j, bad
vars == <<sh, l, j, bad>>

NoState == [live |-> FALSE]
SeqSet(s) == {s[i] : i \in 1..Len(s)}

\* ---- abstract instruction of the spec from the logged description --------
NextOf(a)      == a.addr + a.len
RealTargets(a) == CASE a.jk \in {"const", "cond", "two"} -> SeqSet(a.t) \ {NextOf(a)}
                    [] OTHER -> {}
HasJump(a)     == a.jk = "ind" \/ RealTargets(a) # {}
IpWriter(a)    == a.jk # "none"
Abs(a) == [rd |-> SeqSet(a.rd) \cup (IF a.jk \in {"cond", "two"} /\ Len(a.rd) > 0 THEN {} ELSE {})
                    \cup (IF a.jk = "ind" THEN {"a"} ELSE {}),
           wr |-> SeqSet(a.wr) \cup (IF IpWriter(a) THEN {"ip"} ELSE {}),
           ld |-> SeqSet(a.ld), st |-> SeqSet(a.st),
           memorder |-> a.memorder, special |-> a.special, jump |-> HasJump(a), len |-> a.len]

\* ---- C08: partition -------------------------------------------------------
SortedIds(ins) == SetToSortSeq(1..Len(ins), LAMBDA x, y : ins[x].addr < ins[y].addr)
Prog(ins) == LET ids == SortedIds(ins) IN
             [k \in 1..Len(ids) |-> [addr |-> ins[ids[k]].addr, len |-> ins[ids[k]].len,
                                     jump |-> HasJump(ins[ids[k]]), targets |-> RealTargets(ins[ids[k]])]]
GotPartition(ev) == [b \in 1..Len(ev.blocks) |-> [k \in 1..Len(ev.blocks[b].ins) |-> ev.ins[ev.blocks[b].ins[k].id + 1].addr]]

\* ---- state ----------------------------------------------------------------
IdAt(ins, addr) == (CHOOSE i \in 1..Len(ins) : ins[i].addr = addr) - 1
FreshState(ev) ==
    LET part == Partition(Prog(ev.ins), ev.entry) IN
    [live |-> TRUE, ins |-> ev.ins,
     blocks |-> [b \in 1..Len(part) |-> [begin |-> part[b][1], ids |-> [k \in 1..Len(part[b]) |-> IdAt(ev.ins, part[b][k])]]],
     order |-> [b \in 1..Len(part) |-> b],
     edges |-> {<<ev.edges[i][1], ev.edges[i][2]>> : i \in 1..Len(ev.edges)}]

MaxOf(S) == CHOOSE m \in S : \A x \in S : x <= m
MinOf(S) == CHOOSE m \in S : \A x \in S : m <= x
PosIn(ids, id) == (CHOOSE k \in 1..Len(ids) : ids[k] = id) - 1        \* 0-based
\* the bounds formula over the logged edges (0-based indices)
LoOf(st, ids, k) == LET ps == {PosIn(ids, e[1]) : e \in {e \in st.edges : e[2] = ids[k] /\ e[1] \in SeqSet(ids)}}
                    IN IF ps = {} THEN 0 ELSE MaxOf(ps) + 1
UpOf(st, ids, k) == LET ss == {PosIn(ids, e[2]) : e \in {e \in st.edges : e[1] = ids[k] /\ e[2] \in SeqSet(ids)}}
                    IN IF ss = {} THEN Len(ids) - 1 ELSE MinOf(ss) - 1
LenSum(st, ids, n) == FoldLeft(LAMBDA acc, q : acc + st.ins[ids[q] + 1].len, 0, [i \in 1..n |-> i])

ExpBlocks(st) ==
    [p \in 1..Len(st.order) |->
       LET b == st.blocks[st.order[p]] IN
       [pos |-> p - 1, idx |-> p - 1, begin |-> b.begin, end |-> b.begin + LenSum(st, b.ids, Len(b.ids)),
        ins |-> [k \in 1..Len(b.ids) |->
                   [id |-> b.ids[k], addr |-> b.begin + LenSum(st, b.ids, k - 1), idx |-> k - 1,
                    lo |-> LoOf(st, b.ids, k), up |-> UpOf(st, b.ids, k), len |-> st.ins[b.ids[k] + 1].len]]]]

\* address lookups: block position containing the address, instruction starting there
ExpLookup(st, off) ==
    LET eb == ExpBlocks(st)
        bs == {p \in 1..Len(eb) : eb[p].begin <= off /\ off < eb[p].end} IN
    IF bs = {} THEN <<off, -1, -1>>
    ELSE LET p == CHOOSE x \in bs : TRUE
             ks == {k \in 1..Len(eb[p].ins) : eb[p].ins[k].addr = off} IN
         <<off, p - 1, IF ks = {} THEN -1 ELSE eb[p].ins[CHOOSE k \in ks : TRUE].id>>

\* ---- abstract soundness / swappability of the current order ----------------
BlockOrig(st, b)  == LET ids == SetToSortSeq(SeqSet(b.ids), <) IN [k \in 1..Len(ids) |-> Abs(st.ins[ids[k] + 1])]
BlockPerm(st, b)  == LET ids == SetToSortSeq(SeqSet(b.ids), <) IN
                     [k \in 1..Len(b.ids) |-> CHOOSE q \in 1..Len(ids) : ids[q] = b.ids[k]]
\* data conflicts only (registers incl. ip, memory spaces) and the terminating jump:
\* what changes registers, memory or control transfer when reordered
DataConflict(orig, i, k) ==
    LET a == orig[i] b == orig[k] IN
    /\ i < k
    /\ \/ a.wr \cap (b.rd \cup b.wr) # {} \/ a.rd \cap b.wr # {}
       \/ a.st \cap (b.ld \cup b.st) # {} \/ a.ld \cap b.st # {}
       \/ (k = Len(orig) /\ b.jump)
DataSound(orig, perm) == \A i, k \in 1..Len(orig) : DataConflict(orig, i, k) => Pos(perm, i) < Pos(perm, k)

\* C06 on what the tool REPORTS (independent of the projection classes): the bounds of every independent adjacent pair
\* admit the swap
RepShapeOk(ev, st) == /\ Len(ev.blocks) = Len(st.order)
                      /\ \A q \in 1..Len(st.order) : Len(ev.blocks[q].ins) = Len(st.blocks[st.order[q]].ids)
MustSwapReported(ev, st) ==
    RepShapeOk(ev, st) /\ \E q \in 1..Len(st.order) : \E p \in 1..(Len(st.blocks[st.order[q]].ids) - 1) :
        /\ Independent(BlockOrig(st, st.blocks[st.order[q]]), BlockPerm(st, st.blocks[st.order[q]]), p)
        /\ ~(ev.blocks[q].ins[p].up >= p /\ ev.blocks[q].ins[p + 1].lo <= p - 1)

CheckState(ev, st) ==
    IF On("projection") /\ ev.blocks # ExpBlocks(st) THEN Fail("projection", ExpBlocks(st), ev.blocks, st)
    ELSE IF On("lookup") /\ \E i \in 1..Len(ev.lookups) : ev.lookups[i] # ExpLookup(st, ev.lookups[i][1])
      THEN Let1(CHOOSE i \in 1..Len(ev.lookups) : ev.lookups[i] # ExpLookup(st, ev.lookups[i][1]), LAMBDA i :
                Fail("lookup", ExpLookup(st, ev.lookups[i][1]), ev.lookups[i], st))
    ELSE IF On("edgeorder") /\ \E e \in st.edges : \E b \in 1..Len(st.blocks) :
              e[1] \in SeqSet(st.blocks[b].ids) /\ e[2] \in SeqSet(st.blocks[b].ids)
              /\ PosIn(st.blocks[b].ids, e[1]) >= PosIn(st.blocks[b].ids, e[2])
      THEN Fail("edgeorder", "every instruction after the instructions it depends on", ev.blocks, st)
    ELSE IF On("unsound") /\ \E b \in 1..Len(st.blocks) : ~DataSound(BlockOrig(st, st.blocks[b]), BlockPerm(st, st.blocks[b]))
      THEN Fail("unsound", "conflicting instructions keep their order", ev.blocks, st)
    ELSE IF On("mustswap") /\
            ( \/ \E b \in 1..Len(st.blocks) : \E p \in 1..(Len(st.blocks[b].ids) - 1) :
                    /\ Independent(BlockOrig(st, st.blocks[b]), BlockPerm(st, st.blocks[b]), p)
                    /\ ~(UpOf(st, st.blocks[b].ids, p) >= p /\ LoOf(st, st.blocks[b].ids, p + 1) <= p - 1)
              \/ MustSwapReported(ev, st) )
      THEN Fail("mustswap", "independent neighbours can be swapped", ev.blocks, st)
    ELSE Pass(st)

JudgeNew(ev) ==
    IF ev.panic # "" THEN Fail("panic", "no panic", ev.panic, NoState)
    ELSE Let1(BuildFails(Prog(ev.ins), ev.entry), LAMBDA fails :
      IF On("builderr") /\ ev.err # fails THEN Fail("builderr", [err |-> fails], [err |-> ev.err], NoState)
      ELSE IF fails \/ ev.err THEN Pass(NoState)
      ELSE IF On("partition") /\ GotPartition(ev) # Partition(Prog(ev.ins), ev.entry)
        THEN Fail("partition", Partition(Prog(ev.ins), ev.entry), GotPartition(ev), NoState)
      ELSE IF On("entry") /\ ~ev.entryok THEN Fail("entry", "entry point inside a block", "not found", NoState)
      ELSE CheckState(ev, FreshState(ev)))

Rot(s, f, t) == Rotate(s, f, t)                   \* 1-based positions
JudgeMove(ev, st) ==
    IF ev.panic # "" THEN Fail("panic", "no panic", ev.panic, st)
    ELSE Let1(st.blocks[st.order[ev.block + 1]], LAMBDA b :
      Let1(Len(b.ids), LAMBDA n :
        Let1(/\ ev.from >= 0 /\ ev.from < n /\ ev.to >= 0 /\ ev.to < n
             /\ LoOf(st, b.ids, ev.from + 1) <= ev.to /\ ev.to <= UpOf(st, b.ids, ev.from + 1), LAMBDA okexp :
          \* C06 directly: a swap of independent neighbours was attempted and refused
          IF On("mustswap") /\ ~ev.ok /\ ev.from >= 0 /\ ev.from < n /\ ev.to >= 0 /\ ev.to < n
             /\ (ev.to = ev.from + 1 \/ ev.from = ev.to + 1)
             /\ Independent(BlockOrig(st, b), BlockPerm(st, b), (IF ev.from < ev.to THEN ev.from ELSE ev.to) + 1)
            THEN Fail("mustswap", "swap of independent neighbours accepted", [from |-> ev.from, to |-> ev.to, ok |-> ev.ok], st)
          ELSE IF On("accept") /\ ev.ok # okexp THEN Fail("accept", [ok |-> okexp, lo |-> IF ev.from >= 0 /\ ev.from < n THEN LoOf(st, b.ids, ev.from + 1) ELSE -1,
                                                 up |-> IF ev.from >= 0 /\ ev.from < n THEN UpOf(st, b.ids, ev.from + 1) ELSE -1],
                                      [ok |-> ev.ok], st)
          ELSE IF ~ev.ok \/ ev.from = ev.to THEN CheckState(ev, st)
          ELSE CheckState(ev, [st EXCEPT !.blocks[st.order[ev.block + 1]].ids = Rot(b.ids, ev.from + 1, ev.to + 1)]))))

JudgeBMove(ev, st) ==
    IF ev.panic # "" THEN Fail("panic", "no panic", ev.panic, st)
    ELSE Let1(Len(st.order), LAMBDA n :
      Let1(ev.from >= 0 /\ ev.from < n /\ ev.to >= 0 /\ ev.to < n, LAMBDA okexp :
        IF On("accept") /\ ev.ok # okexp THEN Fail("accept", [ok |-> okexp], [ok |-> ev.ok], st)
        ELSE IF ~ev.ok \/ ev.from = ev.to THEN CheckState(ev, st)
        ELSE CheckState(ev, [st EXCEPT !.order = Rot(st.order, ev.from + 1, ev.to + 1)])))

Judge(ev, st) ==
    IF ev.op = "new" THEN JudgeNew(ev)
    ELSE IF ~st.live THEN Pass(st)
    ELSE IF ev.op = "move" THEN JudgeMove(ev, st)
    ELSE JudgeBMove(ev, st)

Init == /\ sh \in Shards /\ l = Bounds[sh] + 1 /\ j = Pass(NoState) /\ bad = <<>>
Next == /\ l <= Bounds[sh + 1]
        /\ j' = Judge(TraceLog[l], j.next)
        /\ l' = l + 1
        /\ bad' = IF j'.ok THEN bad ELSE Append(bad, Verdict(l, TraceLog[l], j'))
        /\ Finish(sh, l, bad')
        /\ UNCHANGED sh
Spec == Init /\ [][Next]_vars
=============================================================================
