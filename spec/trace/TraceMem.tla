------------------------------ MODULE TraceMem ------------------------------
(***************************************************************************)
(* Trace specification of the symbolic memories and the register state:    *)
(*   family mem  : memory.Sparse, memory.Bytes, memory.Overlay  (C14-C16)  *)
(*   family regs : state.RegMap, state.State.Apply               (C18)     *)
(* The abstract state is that of module Mem (cells per layer + the table   *)
(* of writes); one action per recorded call; the value of every loaded     *)
(* expression is compared, under every environment of the trace, with the  *)
(* bytes the cells prescribe (ExprIR!Eval is the meaning of expressions).  *)
(***************************************************************************)
EXTENDS ExprIR, Mem, TraceKit

VARIABLES sh, l, j, bad
vars == <<sh, l, j, bad>>

NoState == [live |-> FALSE]

\* value of a stored expression [nodes, root] under env
ValOf(v, env) == EvalAll(v.nodes, env)[v.root]
Leaf(n)       == [nodes |-> <<n>>, root |-> 1]
ConstLeaf(bs) == Leaf([k |-> "c", w |-> Len(bs), b |-> bs])

\* byte visible at address x: byte c.k of write c.vid, whose value is first
\* adapted to its write width
ByteAt(st, cells, x, env) ==
    Let1(cells[x], LAMBDA c : Let1(st.ws[c.vid], LAMBDA wr : Adapt(ValOf(wr.val, env), wr.w)[c.k + 1]))
ExpBytes(st, cells, a, w, env) == TLCEval([i \in 1..w |-> ByteAt(st, cells, a + i - 1, env)])

View(st) == Layered(st.base, st.over)

BlocksOverlap(bl) == \E p, q \in 1..Len(bl) : p # q /\
                        (bl[p].off..(bl[p].off + Len(bl[p].bytes) - 1)) \cap
                        (bl[q].off..(bl[q].off + Len(bl[q].bytes) - 1)) # {}

\* state after writing the initial byte blocks into `layer`
RECURSIVE WithBlocks(_,_,_,_)
WithBlocks(st, bl, i, layer) ==
    IF i > Len(bl) THEN st
    ELSE Let1(Len(st.ws) + 1, LAMBDA vid :
         Let1([st EXCEPT !.ws = Append(st.ws, [val |-> ConstLeaf(bl[i].bytes), w |-> Len(bl[i].bytes)])], LAMBDA s1 :
           WithBlocks(IF layer = "base"
                      THEN [s1 EXCEPT !.base = StoreCells(s1.base, bl[i].off, Len(bl[i].bytes), vid)]
                      ELSE [s1 EXCEPT !.over = StoreCells(s1.over, bl[i].off, Len(bl[i].bytes), vid)],
                      bl, i + 1, layer)))

Fresh(ev) == [live |-> TRUE, kind |-> ev.kind, n |-> ev.n, envs |-> ev.envs, basev |-> ev.base, ws |-> <<>>,
              base |-> EmptyCells(ev.n), over |-> EmptyCells(ev.n),
              rs |-> <<>>, mems |-> [k \in {"m1", "m2"} |-> EmptyCells(ev.n)]]

JudgeNew(ev) ==
    IF ev.kind = "sparse" \/ (ev.kind = "overlay" /\ ev.basekind = "sparse") \/ ev.kind = "state"
    THEN (IF ev.err THEN Fail("err", "no error", "error", NoState) ELSE Pass(Fresh(ev)))
    ELSE IF ev.err # BlocksOverlap(ev.blocks)
         THEN Fail("newbytes", [err |-> BlocksOverlap(ev.blocks)], [err |-> ev.err],
                   IF ev.err THEN NoState ELSE WithBlocks(Fresh(ev), ev.blocks, 1, IF ev.kind = "bytes" THEN "over" ELSE "base"))
    ELSE IF ev.err THEN Pass(NoState)
    ELSE Pass(WithBlocks(Fresh(ev), ev.blocks, 1, IF ev.kind = "bytes" THEN "over" ELSE "base"))

JudgeStore(ev, st) ==
    Let1(Len(st.ws) + 1, LAMBDA vid :
    Let1([st EXCEPT !.ws = Append(st.ws, [val |-> Leaf(ev.val), w |-> ev.w])], LAMBDA s1 :
      Pass(IF ev.layer = "base"
           THEN [s1 EXCEPT !.base = StoreCells(s1.base, ev.off, ev.w, vid)]
           ELSE [s1 EXCEPT !.over = StoreCells(s1.over, ev.off, ev.w, vid)])))

\* the loaded expression against the cells
JudgeLoadIn(ev, st, cells) ==
    Let1(LoadOk(cells, ev.off, ev.w), LAMBDA expok :
      IF ev.ok # expok THEN Fail("loadok", [ok |-> expok], [ok |-> ev.ok], st)
      ELSE IF ~expok THEN Pass(st)
      ELSE IF ev.rnodes[ev.ret].w # ev.w THEN Fail("width", ev.w, ev.rnodes[ev.ret].w, st)
      ELSE Let1({i \in 1..Len(st.envs) :
                   EvalAll(ev.rnodes, st.envs[i])[ev.ret] # ExpBytes(st, cells, ev.off, ev.w, st.envs[i])}, LAMBDA bads :
           IF bads = {} THEN Pass(st)
           ELSE Let1(CHOOSE i \in bads : \A k \in bads : i <= k, LAMBDA i :
                Fail("value", [env |-> i, v |-> ExpBytes(st, cells, ev.off, ev.w, st.envs[i])],
                     [v |-> EvalAll(ev.rnodes, st.envs[i])[ev.ret]], st))))

JudgeMissing(ev, st, cells) ==
    Let1(Normal(MissingSet(cells, ev.off, ev.w)), LAMBDA exp :
      IF ev.ivs = exp THEN Pass(st) ELSE Fail("missing", exp, ev.ivs, st))
JudgeBlocks(ev, st, cells) ==
    Let1(Normal(Present(cells)), LAMBDA exp :
      IF ev.ivs = exp THEN Pass(st) ELSE Fail("blocks", exp, ev.ivs, st))

(***************************************************************************)
(* Register state.  rs is the list of register writes [key, val, w]; a     *)
(* load sees the last write to the key, adapted to its write width and     *)
(* then to the load width.                                                 *)
(***************************************************************************)
LastWrite(rs, key) == Let1({i \in 1..Len(rs) : rs[i].key = key}, LAMBDA S :
                        IF S = {} THEN 0 ELSE CHOOSE i \in S : \A k \in S : k <= i)
JudgeRLoad(ev, st) ==
    Let1(LastWrite(st.rs, ev.key), LAMBDA i :
      IF ev.ok # (i > 0) THEN Fail("loadok", [ok |-> i > 0], [ok |-> ev.ok], st)
      ELSE IF i = 0 THEN Pass(st)
      ELSE IF ev.rnodes[ev.ret].w # ev.w THEN Fail("width", ev.w, ev.rnodes[ev.ret].w, st)
      ELSE Let1({e \in 1..Len(st.envs) :
                   EvalAll(ev.rnodes, st.envs[e])[ev.ret]
                     # Adapt(Adapt(ValOf(st.rs[i].val, st.envs[e]), st.rs[i].w), ev.w)}, LAMBDA bads :
           IF bads = {} THEN Pass(st)
           ELSE Let1(CHOOSE e \in bads : TRUE, LAMBDA e :
                Fail("value", [env |-> e, v |-> Adapt(Adapt(ValOf(st.rs[i].val, st.envs[e]), st.rs[i].w), ev.w)],
                     [v |-> EvalAll(ev.rnodes, st.envs[e])[ev.ret]], st))))

\* does constant folding reduce node i to a constant?  (no environment needed)
ReducesRec(nodes) ==
  Let1(EvalNoEnv(nodes), LAMBDA cv :
    FoldLeft(LAMBDA acc, i :
       Let1(nodes[i], LAMBDA n :
         Append(acc,
           CASE n.k = "c" -> TRUE
             [] n.k \in {"r", "m"} -> FALSE
             [] n.k = "b" -> acc[n.a[1]] /\ acc[n.a[2]]
             [] n.k = "l" -> acc[n.a[1]] /\ acc[n.a[2]] /\
                    (IF Ltu(cv[n.a[1]], cv[n.a[2]], n.w) THEN acc[n.a[3]] ELSE acc[n.a[4]]))),
       <<>>, Idx(Len(nodes))))

AddrOffset(st, av) ==      \* offset of the 8-byte address value av from the window base; -1 if outside
    Let1(Sub(Adapt(av, 8), st.basev, 8), LAMBDA d :
      IF \A i \in 3..8 : d[i] = 0 THEN d[1] + 256 * d[2] ELSE -1)

JudgeApply(ev, st) ==
    IF ev.eff = "reg"
    THEN (IF ~ev.applied THEN Fail("applied", TRUE, FALSE, st)
          ELSE Pass([st EXCEPT !.rs = Append(st.rs, [key |-> ev.key, val |-> [nodes |-> ev.nodes, root |-> ev.value], w |-> ev.w])]))
    ELSE Let1(ReducesRec(ev.nodes)[ev.addr], LAMBDA red :
      IF ev.applied # red THEN Fail("applied", red, ev.applied, st)
      ELSE IF ~red THEN (IF ev.changed THEN Fail("refusedchanged", "state unchanged", "state changed", st) ELSE Pass(st))
      ELSE Let1(AddrOffset(st, EvalNoEnv(ev.nodes)[ev.addr]), LAMBDA off :
           IF off < 0 \/ off + ev.w > st.n THEN Fail("harness", "address inside the window", off, st)
           ELSE Let1(Len(st.ws) + 1, LAMBDA vid :
                Pass([st EXCEPT !.ws = Append(st.ws, [val |-> [nodes |-> ev.nodes, root |-> ev.value], w |-> ev.w]),
                                !.mems[ev.key] = StoreCells(st.mems[ev.key], off, ev.w, vid)]))))

Judge(ev, st) ==
    IF ev.panic # "" THEN Fail("panic", "no panic", ev.panic, IF ev.op = "new" THEN NoState ELSE st)
    ELSE IF ev.op = "new" THEN JudgeNew(ev)
    ELSE IF ~st.live THEN Pass(st)                      \* nothing to compare after a failed construction
    ELSE IF ev.mut # "" THEN Fail("mutated", "no value handed in or returned changes", ev.mut, st)
    ELSE IF ev.basemut THEN Fail("basemutated", "base layer unchanged", "base layer changed", st)
    ELSE IF ev.outside THEN Fail("outside", "intervals inside the window", "interval far outside", st)
    ELSE CASE ev.op = "store"   -> JudgeStore(ev, st)
           [] ev.op = "load"    -> JudgeLoadIn(ev, st, View(st))
           [] ev.op = "missing" -> JudgeMissing(ev, st, View(st))
           [] ev.op = "blocks"  -> JudgeBlocks(ev, st, View(st))
           [] ev.op = "rstore"  -> Pass([st EXCEPT !.rs = Append(st.rs, [key |-> ev.key, val |-> Leaf(ev.val), w |-> ev.w])])
           [] ev.op = "rload"   -> JudgeRLoad(ev, st)
           [] ev.op = "apply"   -> JudgeApply(ev, st)
           [] ev.op = "mload"   -> JudgeLoadIn(ev, st, st.mems[ev.key])
           [] ev.op = "mblocks" -> JudgeBlocks(ev, st, st.mems[ev.key])

Init == /\ sh \in Shards /\ l = Bounds[sh] + 1 /\ j = Pass(NoState) /\ bad = <<>>
Next == /\ l <= Bounds[sh + 1]
        /\ j' = Judge(TraceLog[l], j.next)
        /\ l' = l + 1
        /\ bad' = IF j'.ok THEN bad ELSE Append(bad, Verdict(l, TraceLog[l], j'))
        /\ Finish(sh, l, bad')
        /\ UNCHANGED sh
Spec == Init /\ [][Next]_vars
=============================================================================
