----------------------------- MODULE TraceStruct -----------------------------
(***************************************************************************)
(* Trace specification of the structural expression utilities             *)
(* (internal/exprtransform: Equal, FindAll, ReplaceAll, Exprs, EffectApply) *)
(* - C28.  Expressions travel as hash-consed node tables (ExprIR), so two  *)
(* expressions are structurally equal iff they are the same index; results *)
(* are interned into the same table by the harness.                        *)
(***************************************************************************)
EXTENDS ExprIR, TraceKit
VARIABLES sh, l, j, bad
vars == <<sh, l, j, bad>>

\* the tree a node denotes, as nested records (hash-consing independent)
RECURSIVE Tree(_,_)
Tree(nodes, i) ==
    LET n == nodes[i] IN
    CASE n.k = "c" -> [k |-> "c", w |-> n.w, b |-> n.b]
      [] n.k = "r" -> [k |-> "r", w |-> n.w, n |-> n.n]
      [] n.k = "b" -> [k |-> "b", w |-> n.w, o |-> n.o, a |-> <<Tree(nodes, n.a[1]), Tree(nodes, n.a[2])>>]
      [] n.k = "l" -> [k |-> "l", w |-> n.w, a |-> <<Tree(nodes, n.a[1]), Tree(nodes, n.a[2]), Tree(nodes, n.a[3]), Tree(nodes, n.a[4])>>]
      [] n.k = "m" -> [k |-> "m", w |-> n.w, n |-> n.n, a |-> <<Tree(nodes, n.a[1])>>]

\* the named replacement functions of the harness: [hit, new] for a (rebuilt) tree t
Repl(name, t) ==
    CASE name = "r" /\ t.k = "r" /\ t.n = "r1" -> [hit |-> TRUE, new |-> [k |-> "c", w |-> t.w, b |-> Adapt(<<7>>, t.w)]]
      [] name = "c" /\ t.k = "c" /\ IsZero(t.b) -> [hit |-> TRUE, new |-> [k |-> "c", w |-> t.w, b |-> Adapt(<<9>>, t.w)]]
      [] name = "b" /\ t.k = "b" /\ t.o = OpAdd -> [hit |-> TRUE, new |-> [t EXCEPT !.o = OpNand]]
      [] name = "m" /\ t.k = "m" /\ t.n = "m1"  -> [hit |-> TRUE, new |-> [k |-> "r", w |-> t.w, n |-> "rm"]]
      [] name = "l" /\ t.k = "l"                -> [hit |-> TRUE, new |-> t.a[3]]
      [] OTHER -> [hit |-> FALSE, new |-> t]
\* bottom-up substitution: children first, then the node itself
RECURSIVE Subst(_,_)
Subst(name, t) ==
    LET rebuilt == IF t.k \in {"b", "l", "m"} THEN [t EXCEPT !.a = [i \in 1..Len(t.a) |-> Subst(name, t.a[i])]] ELSE t
    IN Repl(name, rebuilt).new

Gadget(t) == [k |-> "b", w |-> t.w, o |-> OpAdd, a |-> <<t, [k |-> "c", w |-> 1, b |-> <<0>>]>>]

Judge(ev, st) ==
    IF ev.panic # "" THEN Fail("panic", "no panic", ev.panic, <<>>)
    ELSE IF ev.retmut # "" THEN Fail("retmut", "results handed out earlier stay what they were", ev.retmut, <<>>)
    ELSE IF ~WellFormed(ev.onodes) THEN Fail("illformed", "well-formed", "ill-formed", <<>>)
    ELSE CASE ev.op = "equal" ->
              IF ev.res = (ev.a = ev.b) THEN Pass(<<>>) ELSE Fail("equal", ev.a = ev.b, ev.res, <<>>)
           [] ev.op = "find" ->
              Let1(SelectSeq(PreOrder(ev.nodes, ev.a), LAMBDA i : ev.nodes[i].k = ev.kind), LAMBDA exp :
                IF ev.found = exp THEN Pass(<<>>) ELSE Fail("find", exp, ev.found, <<>>))
           [] ev.op = "replace" ->
              Let1(Subst(ev.kind, Tree(ev.nodes, ev.a)), LAMBDA exp :
                IF Tree(ev.onodes, ev.out) # exp THEN Fail("replace", exp, Tree(ev.onodes, ev.out), <<>>)
                ELSE IF exp = Tree(ev.nodes, ev.a) /\ ev.out # ev.a THEN Fail("sametree", ev.a, ev.out, <<>>)
                ELSE Pass(<<>>))
           [] ev.op = "exprs" ->
              Let1(IF ev.eff.e = "mem" THEN <<ev.eff.a, ev.eff.v>> ELSE <<ev.eff.v>>, LAMBDA exp :
                IF ev.found = exp THEN Pass(<<>>) ELSE Fail("exprs", exp, ev.found, <<>>))
           [] ev.op = "exprsmany" ->
              Let1(FoldLeft(LAMBDA acc, i : acc \o (IF ev.effs[i].e = "mem" THEN <<ev.effs[i].a, ev.effs[i].v>> ELSE <<ev.effs[i].v>>),
                            <<>>, [i \in 1..Len(ev.effs) |-> i]), LAMBDA exp :
                IF ev.found = exp THEN Pass(<<>>) ELSE Fail("exprs", exp, ev.found, <<>>))
           [] ev.op = "effapply" ->
              IF ev.outeff.e # ev.eff.e \/ ev.outeff.n # ev.eff.n \/ ev.outeff.w # ev.eff.w
                THEN Fail("effshape", ev.eff, ev.outeff, <<>>)
              ELSE IF Tree(ev.onodes, ev.outeff.v) # Gadget(Tree(ev.nodes, ev.eff.v))
                THEN Fail("effvalue", Gadget(Tree(ev.nodes, ev.eff.v)), Tree(ev.onodes, ev.outeff.v), <<>>)
              ELSE IF ev.eff.e = "mem" /\ Tree(ev.onodes, ev.outeff.a) # Gadget(Tree(ev.nodes, ev.eff.a))
                THEN Fail("effaddr", Gadget(Tree(ev.nodes, ev.eff.a)), Tree(ev.onodes, ev.outeff.a), <<>>)
              ELSE Pass(<<>>)

Init == /\ sh \in Shards /\ l = Bounds[sh] + 1 /\ j = Pass(<<>>) /\ bad = <<>>
Next == /\ l <= Bounds[sh + 1]
        /\ j' = Judge(TraceLog[l], j.next)
        /\ l' = l + 1
        /\ bad' = IF j'.ok THEN bad ELSE Append(bad, Verdict(l, TraceLog[l], j'))
        /\ Finish(sh, l, bad')
        /\ UNCHANGED sh
Spec == Init /\ [][Next]_vars
=============================================================================
