---------------------------- MODULE TraceStartup ----------------------------
(* Trace specification of program start-up (C26): one event per run of the *)
(* real binary under a pseudo-terminal.                                    *)
EXTENDS Startup, TraceKit
VARIABLES sh, l, j, bad
vars == <<sh, l, j, bad>>
Judge(ev, st) ==
    IF ev.outcome \in Allowed(ev.class) THEN Pass(<<>>)
    ELSE IF ev.outcome = "crash" THEN Fail("crash", Allowed(ev.class), [outcome |-> ev.outcome, exit |-> ev.exit, tail |-> ev.tail], <<>>)
    ELSE Fail("outcome", Allowed(ev.class), [outcome |-> ev.outcome, exit |-> ev.exit, tail |-> ev.tail], <<>>)
Init == /\ sh \in Shards /\ l = Bounds[sh] + 1 /\ j = Pass(<<>>) /\ bad = <<>>
Next == /\ l <= Bounds[sh + 1]
        /\ j' = Judge(TraceLog[l], j.next)
        /\ l' = l + 1
        /\ bad' = IF j'.ok THEN bad ELSE Append(bad, Verdict(l, TraceLog[l], j'))
        /\ Finish(sh, l, bad')
        /\ UNCHANGED sh
Spec == Init /\ [][Next]_vars
=============================================================================
