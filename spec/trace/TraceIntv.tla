------------------------------ MODULE TraceIntv ------------------------------
(***************************************************************************)
(* Trace specification of the interval sets (internal/state/interval, C17): *)
(* NewMap, MapUnion, MapComplement, MapIntersect must return the normal     *)
(* form of the corresponding set of integers, and always succeed.           *)
(***************************************************************************)
EXTENDS Interval, TraceKit
VARIABLES sh, l, j, bad
vars == <<sh, l, j, bad>>

Expected(ev) ==
    CASE ev.op = "newmap"     -> Normal(SetOf(ev.a))
      [] ev.op = "union"      -> Union(ev.a, ev.b)
      [] ev.op = "complement" -> Complement(ev.a, ev.b)
      [] ev.op = "intersect"  -> Intersect(ev.a, ev.b)

Judge(ev, st) ==
    IF ev.panic # "" THEN Fail("panic", "always succeeds", ev.panic, <<>>)
    ELSE LET exp == Expected(ev) IN
         IF ev.ivs = exp THEN Pass(<<>>)
         ELSE IF ~IsNormal(ev.ivs) THEN Fail("notnormal", exp, ev.ivs, <<>>)
         ELSE Fail("set", exp, ev.ivs, <<>>)

Init == /\ sh \in Shards /\ l = Bounds[sh] + 1 /\ j = Pass(<<>>) /\ bad = <<>>
Next == /\ l <= Bounds[sh + 1]
        /\ j' = Judge(TraceLog[l], j.next)
        /\ l' = l + 1
        /\ bad' = IF j'.ok THEN bad ELSE Append(bad, Verdict(l, TraceLog[l], j'))
        /\ Finish(sh, l, bad')
        /\ UNCHANGED sh
Spec == Init /\ [][Next]_vars
=============================================================================
