------------------------------ MODULE TraceIntv ------------------------------
(***************************************************************************)
(* Trace specification of the interval sets (internal/state/interval, C17): *)
(* NewMap, MapUnion, MapComplement, MapIntersect must return the normal     *)
(* form of the corresponding set of integers, and always succeed.           *)
(***************************************************************************)
EXTENDS Interval, TraceKit
VARIABLES sh, l, j, bad
vars == <<sh, l, j, bad>>

Expected(ev) ==
    CASE ev.op = "newmap"     -> Normal(SetOf(ev.a))
      [] ev.op = "union"      -> Union(ev.a, ev.b)
      [] ev.op = "complement" -> Complement(ev.a, ev.b)
      [] ev.op = "intersect"  -> Intersect(ev.a, ev.b)

\* ---- sessions: Map values kept alive ----------------------------------------
\* st.maps: the sets of the session (normal forms).  An operation appends its result and changes neither its
\* arguments nor any earlier result (all maps are re-read after every operation).
SessionOps == {"snew", "sunion", "scomplement", "sintersect"}
SessionExpected(ev, st) ==
    CASE ev.op = "snew"        -> [i \in 1..Len(ev.init) |-> Normal(SetOf(ev.init[i]))]
      [] ev.op = "sunion"      -> Append(st.maps, Union(st.maps[ev.x + 1], st.maps[ev.y + 1]))
      [] ev.op = "scomplement" -> Append(st.maps, Complement(st.maps[ev.x + 1], st.maps[ev.y + 1]))
      [] ev.op = "sintersect"  -> Append(st.maps, Intersect(st.maps[ev.x + 1], st.maps[ev.y + 1]))
JudgeSession(ev, st) ==
    IF ev.panic # "" THEN Fail("panic", "always succeeds", ev.panic, [maps |-> <<>>, dead |-> TRUE])
    ELSE IF ev.op # "snew" /\ st.dead THEN Pass(st)
    ELSE LET exp == SessionExpected(ev, st) IN
         IF ev.maps = exp THEN Pass([maps |-> exp, dead |-> FALSE])
         ELSE IF Len(ev.maps) = Len(exp) /\ ev.maps[Len(exp)] = exp[Len(exp)]
           THEN Fail("inputchanged", exp, ev.maps, [maps |-> exp, dead |-> TRUE])    \* the new result is right, an older map is not
         ELSE Fail("set", exp, ev.maps, [maps |-> exp, dead |-> TRUE])

Judge(ev, st) ==
    IF ev.op \in SessionOps THEN JudgeSession(ev, st) ELSE
    IF ev.panic # "" THEN Fail("panic", "always succeeds", ev.panic, st)
    ELSE LET exp == Expected(ev) IN
         IF ev.ivs = exp THEN Pass(st)
         ELSE IF ~IsNormal(ev.ivs) THEN Fail("notnormal", exp, ev.ivs, st)
         ELSE Fail("set", exp, ev.ivs, st)

Init == /\ sh \in Shards /\ l = Bounds[sh] + 1 /\ j = Pass([maps |-> <<>>, dead |-> TRUE]) /\ bad = <<>>
Next == /\ l <= Bounds[sh + 1]
        /\ j' = Judge(TraceLog[l], j.next)
        /\ l' = l + 1
        /\ bad' = IF j'.ok THEN bad ELSE Append(bad, Verdict(l, TraceLog[l], j'))
        /\ Finish(sh, l, bad')
        /\ UNCHANGED sh
Spec == Init /\ [][Next]_vars
=============================================================================
