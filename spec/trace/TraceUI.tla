------------------------------- MODULE TraceUI -------------------------------
(***************************************************************************)
(* Trace specification of the console UI (internal/consoleui).  One event  *)
(* per input line fed to the real UI.processCommand (with the full         *)
(* projected state after it), per rendering request, per pure helper call. *)
(*   C22  every line is executed or answered with an error; no crash       *)
(*   C23  the listing equals a fresh rendering of the current code;        *)
(*        a rejected move leaves it unchanged                              *)
(*   C24  rendering fits the granted height                                *)
(*   C31  cursor commands land on the right line                           *)
(*   C32  the memory view shows exactly the stored bytes                   *)
(*   C29  help text wrapping; C30 numeric input                            *)
(***************************************************************************)
EXTENDS UI, BV, TraceKit
\* The judgement of a command is a chain of classes (the first disagreement is the verdict).  A check that owns only
\* some classes sets Focus to them, so that a disagreement of another class in the same event cannot hide its own
\* ({} = all).  Crashes always end the judgement of a session.
CONSTANT Focus
On(c) == Focus = {} \/ c \in Focus
VARIABLES sh, l, j, bad
vars == <<sh, l, j, bad>>

NoState == [live |-> FALSE]
SeqSet(s) == {s[i] : i \in 1..Len(s)}
Unmarked(lst) == [i \in 1..Len(lst) |-> Strip(lst[i])]
ProjOf(ev) == [p \in 1..Len(ev.proj) |-> [begin |-> ev.proj[p].beginhex,
                  ins |-> [k \in 1..Len(ev.proj[p].ins) |-> [text |-> ev.proj[p].ins[k].text, bytes |-> ev.proj[p].ins[k].bytes]]]]

Blocks4(ev) == [p \in 1..Len(ev.proj) |-> [beginoff |-> ev.proj[p].beginoff, n |-> Len(ev.proj[p].ins)]]
StateOf(ev) == [live |-> TRUE, mode |-> ev.modename, depth |-> ev.depth, haslist |-> ev.haslist, stack |-> <<ev.modename>>,
                listing |-> Unmarked(ev.listing), cursor |-> ev.cursor, marks |-> MarksOf(ev.listing),
                emuregs |-> {<<ev.emuregs[i].key, ev.emuregs[i].val>> : i \in 1..Len(ev.emuregs)},
                hasmem |-> ev.hasmem, memrows |-> ev.memrows, memcur |-> ev.memcur, stored |-> <<>>, memknown |-> FALSE]

\* ---- C23: listing = fresh rendering = expected structure ---------------------
ListingProblem(ev) ==
    IF ~ev.haslist THEN ""
    ELSE IF Unmarked(ev.listing) # Unmarked(ev.fresh) THEN "stale"
    ELSE IF Unmarked(ev.fresh) # Listing(ProjOf(ev)) THEN "structure"
    ELSE ""

\* ---- the command classes -----------------------------------------------------
Cmd(ev) == IF Len(ev.toks) = 0 THEN "" ELSE ev.toks[1]
NavDown == {"down", "d"}  NavUp == {"up", "u"}  NavGoto == {"goto", "g"}
NavEntry == {"entrypoint", "entry"}  NavFind == {"find", "f", "/"}
MoveCmd == {"move", "mv", "m"}

\* ---- the registers of the emulator mode (beyond the listed properties) -----------------------
\* across one input line that stays in the emulator: a step only adds knowledge (registers never disappear);
\* "regmod k" changes exactly register k, keeps its width and stores the typed number (an unknown k is an error);
\* no other line touches the registers
StepCmd   == {"forward", "fwd", "f", "step", "s"}
RegmodCmd == {"regmod", "rmod"}
RegKeys(S) == {t[1] : t \in S}
EmuRegsProblem(ev, old, new) ==
    LET c == Cmd(ev) IN
    IF c \in StepCmd THEN (IF RegKeys(old) \subseteq RegKeys(new) THEN "" ELSE "a step lost a register")
    ELSE IF c \in RegmodCmd /\ Len(ev.toks) = 2
      THEN LET k == ev.toks[2] IN
           IF k \notin RegKeys(old) THEN (IF new = old /\ ev.outcome = "error" THEN "" ELSE "regmod of an unknown register")
           ELSE IF RegKeys(new) # RegKeys(old) THEN "regmod changed the set of registers"
           ELSE IF \E t \in old : t[1] # k /\ t \notin new THEN "regmod changed another register"
           ELSE IF \E t \in new : \E u \in old : t[1] = k /\ u[1] = k /\ Len(t[2]) # Len(u[2]) THEN "regmod changed the width"
           ELSE IF ev.fillv.kind = "num" /\ ev.fillv.v >= 0 /\ \E t \in new : t[1] = k /\ t[2] # FromNat(ev.fillv.v, Len(t[2]))
             THEN "regmod stored another value"
           ELSE ""
    ELSE IF new # old THEN "registers changed by a line that is neither a step nor regmod" ELSE ""

BoundsCmd == {"bounds", "b"}
BoundsOf(ev) == [p \in 1..Len(ev.proj) |-> [lo |-> ev.proj[p].lo, up |-> ev.proj[p].up]]
\* expected marks after a disassembler command (beyond the listed properties)
MarksExpected(ev, st) ==
    LET c == Cmd(ev) len == Len(st.listing) IN
    IF c \in MoveCmd /\ Len(ev.args) = 2 /\ NumOk(ev.args[1]) /\ NumOk(ev.args[2])
      THEN MarksAfterMove(st.marks, len, ev.args[1].v, ev.args[2].v, ev.outcome = "executed")
    ELSE IF c \in BoundsCmd /\ Len(ev.args) = 1 /\ NumOk(ev.args[1])
      THEN MarksAfterBounds(st.marks, st.listing, BoundsOf(ev), ev.args[1].v)
    ELSE st.marks

\* expected navigation result in the disassembler, or [known |-> FALSE]
NavExpected(ev, st) ==
    LET c == Cmd(ev) len == Len(st.listing) cur == st.cursor IN
    IF c \in NavDown \cup NavUp \cup NavGoto /\ Len(ev.args) = 0 THEN [known |-> TRUE, ok |-> FALSE, cursor |-> cur]
    ELSE IF c \in NavDown THEN [known |-> TRUE] @@ Down(len, cur, ev.args[1])
    ELSE IF c \in NavUp   THEN [known |-> TRUE] @@ Up(len, cur, ev.args[1])
    ELSE IF c \in NavGoto THEN [known |-> TRUE] @@ Goto(len, cur, ev.args[1])
    ELSE IF c \in NavEntry /\ Len(ev.entryat) = 2
         THEN [known |-> TRUE, ok |-> TRUE, cursor |-> InstrLine(st.listing, ev.entryat[1], ev.entryat[2])]
    ELSE IF c \in NavFind /\ ev.pat # "" /\ Len(ev.args) >= 1
         THEN [known |-> TRUE] @@ Find(len, cur, SeqSet(ev.hits))
    ELSE [known |-> FALSE]

JudgeCmd(ev, st) ==
    \* C22
    IF ev.outcome = "panic" THEN Fail("crash", "executed or answered with an error", ev.panic, NoState)
    ELSE IF ev.outcome \in {"exhausted", "failed"} THEN Fail("stuck", "executed or answered with an error", ev.outcome, NoState)
    ELSE IF ev.outcome = "quit" /\ ev.depth = 0 THEN Pass(NoState)
    ELSE Let1([StateOf(ev) EXCEPT !.stack = ModeAfter(st.stack, ev.toks, st.haslist /\ st.listing[st.cursor + 1].kind = "instr")], LAMBDA s2 :
      \* C23
      IF ListingProblem(ev) # "" /\ On(ListingProblem(ev)) THEN Fail(ListingProblem(ev), Listing(ProjOf(ev)), Unmarked(ev.listing), s2)
      ELSE IF On("rejectedchanged") /\ st.mode = "app" /\ Cmd(ev) \in MoveCmd /\ ev.outcome = "error" /\ Unmarked(ev.listing) # st.listing
        THEN Fail("rejectedchanged", st.listing, Unmarked(ev.listing), s2)
      \* the mode stack (C22: every line is executed in the mode the model says)
      ELSE IF On("modestack") /\
              (ev.depth # Len(ModeAfter(st.stack, ev.toks, st.haslist /\ st.listing[st.cursor + 1].kind = "instr"))
              \/ (ev.depth > 0 /\ ev.modename # ModeAfter(st.stack, ev.toks, st.haslist /\ st.listing[st.cursor + 1].kind = "instr")[ev.depth]))
        THEN Fail("modestack", ModeAfter(st.stack, ev.toks, st.haslist /\ st.listing[st.cursor + 1].kind = "instr"),
                  [depth |-> ev.depth, mode |-> ev.modename], s2)
      \* emulator mode: the cursor follows the emulated instruction pointer
      ELSE IF On("ipcursor") /\ ev.modename = "emulate" /\ ev.hasip /\ ev.haslist /\ ev.ipoff >= 0
              /\ LineOfOffset(Unmarked(ev.listing), Blocks4(ev), ev.ipoff) >= 0
              /\ ev.cursor # LineOfOffset(Unmarked(ev.listing), Blocks4(ev), ev.ipoff)
        THEN Fail("ipcursor", LineOfOffset(Unmarked(ev.listing), Blocks4(ev), ev.ipoff), ev.cursor, s2)
      \* emulator registers
      ELSE IF On("emuregs") /\ st.mode = "emulate" /\ ev.modename = "emulate" /\ ev.depth = st.depth
              /\ EmuRegsProblem(ev, st.emuregs, s2.emuregs) # ""
        THEN Fail("emuregs", EmuRegsProblem(ev, st.emuregs, s2.emuregs), [before |-> st.emuregs, after |-> s2.emuregs], s2)
      \* line marks
      ELSE IF On("marks") /\ st.mode = "app" /\ st.haslist /\ ev.modename = "app" /\ MarksOf(ev.listing) # MarksExpected(ev, st)
        THEN Fail("marks", MarksExpected(ev, st), MarksOf(ev.listing), s2)
      \* C31
      ELSE IF st.mode = "app" /\ st.haslist
        THEN Let1(NavExpected(ev, st), LAMBDA nx :
          IF ~nx.known THEN Pass(s2)
          ELSE IF On("cursor") /\ ev.cursor # nx.cursor THEN Fail("cursor", [ok |-> nx.ok, cursor |-> nx.cursor], [outcome |-> ev.outcome, cursor |-> ev.cursor], s2)
          ELSE IF On("noerror") /\ ~nx.ok /\ Cmd(ev) \notin NavFind /\ ev.outcome # "error" THEN Fail("noerror", "error", ev.outcome, s2)
          ELSE IF On("navfailed") /\ nx.ok /\ ev.outcome # "executed" THEN Fail("navfailed", "executed", ev.outcome, s2)
          ELSE Pass(s2))
      ELSE Pass(s2))

\* ---- C24 ----------------------------------------------------------------------
JudgeRender(ev, st) ==
    IF ev.panic # "" THEN Fail("rendercrash", "no crash", ev.panic, st)
    ELSE IF ev.n >= ev.min /\ ~RenderOk(ev.min, ev.max, ev.n, ev.lines)
      THEN Fail("height", [granted |-> ev.n, min |-> ev.min, max |-> ev.max], ev.lines, st)
    \* which lines a cursor view shows: the window around the cursor
    ELSE IF ev.op = "render" /\ ev.n >= ev.min /\ st.mode = "app" /\ st.haslist
            /\ ev.shown # WindowLines(st.cursor, ev.n, Len(st.listing))
      THEN Fail("window", WindowLines(st.cursor, ev.n, Len(st.listing)), ev.shown, st)
    ELSE IF ev.op = "render" /\ ev.n >= ev.min /\ st.hasmem /\ Len(st.memrows) > 0
            /\ ev.shown # WindowLines(st.memcur, ev.n, Len(st.memrows))
      THEN Fail("window", WindowLines(st.memcur, ev.n, Len(st.memrows)), ev.shown, st)
    ELSE Pass(st)

\* ---- C32 ----------------------------------------------------------------------
AddrNat(a) == IF \A i \in 4..8 : a[i] = 0 THEN a[1] + 256 * a[2] + 65536 * a[3] ELSE -1
StoredOf(ev) ==    \* [address |-> byte] of the memory built by "memnew" (later stores win; the upper layer wins)
    LET ord == SelectSeq(ev.memstores, LAMBDA s : s.layer = "base") \o SelectSeq(ev.memstores, LAMBDA s : s.layer # "base") IN
    FoldLeft(LAMBDA f, i : [x \in DOMAIN f \cup {AddrNat(ord[i].addr) + k - 1 : k \in 1..Len(ord[i].bytes)} |->
                              IF x >= AddrNat(ord[i].addr) /\ x < AddrNat(ord[i].addr) + Len(ord[i].bytes)
                              THEN ord[i].bytes[x - AddrNat(ord[i].addr) + 1] ELSE f[x]],
             <<>>, [i \in 1..Len(ord) |-> i])
Hex2(b) == LET d == <<"0", "1", "2", "3", "4", "5", "6", "7", "8", "9", "A", "B", "C", "D", "E", "F">> IN d[(b \div 16) + 1] \o d[(b % 16) + 1]
RowsWin(rows) == [i \in 1..Len(rows) |-> [ellipsis |-> rows[i].ellipsis, win |-> IF rows[i].ellipsis THEN -1 ELSE AddrNat(rows[i].addr) \div 16]]
MemProblem(ev, mem) ==
    LET rows == RowsWin(ev.memrows) IN
    IF \E i \in 1..Len(ev.memrows) : ~ev.memrows[i].ellipsis /\ (AddrNat(ev.memrows[i].addr) < 0 \/ AddrNat(ev.memrows[i].addr) % 16 # 0) THEN "rowaddr"
    ELSE IF ~RowsOk(DOMAIN mem, rows) THEN "rows"
    ELSE IF \E i \in 1..Len(ev.memrows) : ~ev.memrows[i].ellipsis /\ Len(ev.memrows[i].cells) > 0 /\
              ev.memrows[i].cells # [k \in 1..16 |-> IF AddrNat(ev.memrows[i].addr) + k - 1 \in DOMAIN mem
                                                       THEN Hex2(mem[AddrNat(ev.memrows[i].addr) + k - 1]) ELSE ".."]
      THEN "cells"
    ELSE ""

JudgeMemNew(ev) ==
    IF ev.panic # "" THEN Fail("crash", "no crash", ev.panic, NoState)
    ELSE IF ev.err THEN Pass(NoState)
    ELSE Let1(StoredOf(ev), LAMBDA mem :
      IF MemProblem(ev, mem) # "" THEN Fail(MemProblem(ev, mem), DOMAIN mem, ev.memrows, [StateOf(ev) EXCEPT !.stored = mem, !.memknown = TRUE])
      ELSE Pass([StateOf(ev) EXCEPT !.stored = mem, !.memknown = TRUE]))

\* commands of the memory view: cursor moves over rows; "address" selects the row of the address
JudgeMemCmd(ev, st) ==
    IF ev.outcome = "panic" THEN Fail("crash", "executed or answered with an error", ev.panic, NoState)
    ELSE IF ev.outcome \in {"exhausted", "failed"} THEN Fail("stuck", "executed or answered with an error", ev.outcome, NoState)
    ELSE IF ev.outcome = "quit" /\ ev.depth = 0 THEN Pass(NoState)
    ELSE Let1([StateOf(ev) EXCEPT !.stored = st.stored, !.memknown = st.memknown,
                                   !.stack = ModeAfter(st.stack, ev.toks, FALSE)], LAMBDA s2 :
      IF ev.depth # Len(s2.stack) \/ (ev.depth > 0 /\ ev.modename # s2.stack[ev.depth])
        THEN Fail("modestack", s2.stack, [depth |-> ev.depth, mode |-> ev.modename], s2) ELSE
      IF ~st.memknown THEN Pass(s2)
      ELSE IF MemProblem(ev, st.stored) # "" THEN Fail(MemProblem(ev, st.stored), DOMAIN st.stored, ev.memrows, s2)
      ELSE IF Cmd(ev) \in {"address", "addr", "a"} /\ Len(ev.args) >= 1 /\ ev.args[1].kind = "num" /\ ev.args[1].v >= 0
        THEN Let1(ev.args[1].v, LAMBDA a :
          Let1({i \in 1..Len(ev.memrows) : ~ev.memrows[i].ellipsis /\ AddrNat(ev.memrows[i].addr) = (a \div 16) * 16}, LAMBDA rs :
            IF a \in DOMAIN st.stored /\ (ev.outcome # "executed" \/ ev.memcur + 1 \notin rs)
              THEN Fail("address", [row |-> rs], [outcome |-> ev.outcome, cursor |-> ev.memcur], s2)
            ELSE IF rs = {} /\ (ev.outcome # "error" \/ ev.memcur # st.memcur)
              THEN Fail("address", "error, cursor unchanged", [outcome |-> ev.outcome, cursor |-> ev.memcur], s2)
            ELSE Pass(s2)))
      ELSE Pass(s2))

\* ---- C29: help text wrapping -------------------------------------------------
\* the text is given as words and the number of spaces between them; every
\* output line is indent tabs + at most width - 8*indent characters
Chars(ev) == ev.width - 8 * ev.indent
AllPieces(ev) == FoldLeft(LAMBDA acc, i : acc \o ev.fmtlines[i].pieces, <<>>, [i \in 1..Len(ev.fmtlines) |-> i])
\* the pieces must cover the words in order; a word is cut only if it alone is longer than the room
Consume(ev) ==
    FoldLeft(LAMBDA acc, p :
        IF ~acc.ok THEN acc
        ELSE IF acc.rem > 0 THEN (IF p <= acc.rem THEN [acc EXCEPT !.rem = acc.rem - p] ELSE [acc EXCEPT !.ok = FALSE])
        ELSE IF acc.wi + 1 > Len(ev.wlens) THEN [acc EXCEPT !.ok = FALSE]
        ELSE LET w == ev.wlens[acc.wi + 1] IN
             IF p = w THEN [acc EXCEPT !.wi = acc.wi + 1]
             ELSE IF p < w /\ w > Chars(ev) THEN [acc EXCEPT !.wi = acc.wi + 1, !.rem = w - p]
             ELSE [acc EXCEPT !.ok = FALSE],
      [wi |-> 0, rem |-> 0, ok |-> TRUE], AllPieces(ev))
JudgeFormat(ev) ==
    IF ev.panic # "" THEN Fail("crash", "no crash", ev.panic, <<>>)
    ELSE IF ev.hang THEN Fail("nontermination", "terminates", "no result within 3 s", <<>>)
    ELSE IF \E i \in 1..Len(ev.fmtlines) : ev.fmtlines[i].tabs # ev.indent \/ ev.fmtlines[i].len > Chars(ev)
      THEN Fail("linefit", [indent |-> ev.indent, room |-> Chars(ev)], ev.fmtlines, <<>>)
    ELSE IF ~ev.samechars THEN Fail("characters", "all non-space characters in order", ev.outl, <<>>)
    ELSE Let1(Consume(ev), LAMBDA c :
      IF ~c.ok \/ c.rem # 0 \/ c.wi # Len(ev.wlens) THEN Fail("wordsplit", ev.wlens, ev.fmtlines, <<>>)
      ELSE Pass(<<>>))

\* ---- C30: numeric input --------------------------------------------------------
BaseOf(prefix) == CASE prefix \in {"0x", "0X"} -> 16 [] prefix \in {"0b", "0B"} -> 2 [] prefix \in {"0", "0o", "0O"} -> 8 [] OTHER -> 10
DigitsOk(lit) == Len(lit.digits) > 0 /\ \A i \in 1..Len(lit.digits) : lit.digits[i] < BaseOf(lit.prefix)
\* value of the digit string at width w (modulo 2^(8w))
LitValue(lit, w) == FoldLeft(LAMBDA acc, i : Add(Mul(acc, <<BaseOf(lit.prefix)>>, w), <<lit.digits[i]>>, w), Zeros(w), Idx(Len(lit.digits)))
JudgeParseAddr(ev) ==
    IF ev.panic # "" THEN Fail("crash", "no crash", ev.panic, <<>>)
    ELSE Let1(~ev.lit.israw /\ ev.lit.sign = "" /\ ev.lit.prefix \in {"", "0x", "0X", "0b", "0B", "0"} /\ DigitsOk(ev.lit)
              /\ (\A i \in 9..24 : LitValue(ev.lit, 24)[i] = 0), LAMBDA valid :
      IF ev.err # ~valid THEN Fail("accept", [error |-> ~valid], [error |-> ev.err, line |-> ev.line], <<>>)
      ELSE IF valid /\ ev.val # Adapt(LitValue(ev.lit, 24), 8) THEN Fail("value", Adapt(LitValue(ev.lit, 24), 8), ev.val, <<>>)
      ELSE Pass(<<>>))
JudgeReadValue(ev) ==
    IF ev.panic # "" THEN Fail("crash", "no crash", ev.panic, <<>>)
    ELSE Let1(~ev.lit.israw /\ DigitsOk(ev.lit), LAMBDA valid :
      IF ev.err # ~valid THEN Fail("accept", [error |-> ~valid], [error |-> ev.err, line |-> ev.line], <<>>)
      ELSE IF valid /\ ev.val # (IF ev.lit.sign = "-" THEN Neg(LitValue(ev.lit, ev.w), ev.w) ELSE LitValue(ev.lit, ev.w))
        THEN Fail("value", IF ev.lit.sign = "-" THEN Neg(LitValue(ev.lit, ev.w), ev.w) ELSE LitValue(ev.lit, ev.w), ev.val, <<>>)
      ELSE Pass(<<>>))

Judge(ev, st) ==
    CASE ev.op = "uinew" -> (IF ev.panic # "" THEN Fail("crash", "no crash", ev.panic, NoState)
                             ELSE IF ev.err THEN Pass(NoState)
                             ELSE IF ListingProblem(ev) # "" THEN Fail(ListingProblem(ev), Listing(ProjOf(ev)), Unmarked(ev.listing), StateOf(ev))
                             ELSE Pass(StateOf(ev)))
      [] ev.op = "memnew" -> JudgeMemNew(ev)
      [] ev.op = "cmd" -> (IF ~st.live THEN Pass(st) ELSE IF st.hasmem THEN JudgeMemCmd(ev, st) ELSE JudgeCmd(ev, st))
      [] ev.op = "render" -> (IF ~st.live THEN Pass(st) ELSE JudgeRender(ev, st))
      [] ev.op = "parts" -> JudgeRender(ev, st)
      [] ev.op = "format" -> JudgeFormat(ev)
      [] ev.op = "parseaddr" -> JudgeParseAddr(ev)
      [] ev.op = "readvalue" -> JudgeReadValue(ev)

Init == /\ sh \in Shards /\ l = Bounds[sh] + 1 /\ j = Pass(NoState) /\ bad = <<>>
Next == /\ l <= Bounds[sh + 1]
        /\ j' = Judge(TraceLog[l], j.next)
        /\ l' = l + 1
        /\ bad' = IF j'.ok THEN bad ELSE Append(bad, Verdict(l, TraceLog[l], j'))
        /\ Finish(sh, l, bad')
        /\ UNCHANGED sh
Spec == Init /\ [][Next]_vars
=============================================================================
