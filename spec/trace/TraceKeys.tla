------------------------------ MODULE TraceKeys ------------------------------
(* Trace specification of key validation and instruction validation (beyond *)
(* the listed properties; spec/Keys.tla).                                   *)
EXTENDS Keys, TraceKit
VARIABLES sh, l, j, bad
vars == <<sh, l, j, bad>>
KeyOf(ev) == [hash |-> ev.hash, scope |-> ev.scope, sep1 |-> ev.sep1, perm |-> ev.perm, sep2 |-> ev.sep2, name |-> ev.name, len |-> ev.keylen]
Judge(ev, st) ==
    IF ev.op = "insvalidate"
    THEN (IF ev.panicked THEN Fail("panic", "no panic", "panic", <<>>)
          ELSE IF ev.err # ~InsValid(ev) THEN Fail("insvalid", [err |-> ~InsValid(ev)], [err |-> ev.err], <<>>)
          ELSE Pass(<<>>))
    ELSE IF ev.panicked # ~KeyOk(ev.op, KeyOf(ev)) THEN Fail("key", [refused |-> ~KeyOk(ev.op, KeyOf(ev))], [refused |-> ev.panicked, key |-> ev.key], <<>>)
    ELSE Pass(<<>>)
Init == /\ sh \in Shards /\ l = Bounds[sh] + 1 /\ j = Pass(<<>>) /\ bad = <<>>
Next == /\ l <= Bounds[sh + 1]
        /\ j' = Judge(TraceLog[l], j.next)
        /\ l' = l + 1
        /\ bad' = IF j'.ok THEN bad ELSE Append(bad, Verdict(l, TraceLog[l], j'))
        /\ Finish(sh, l, bad')
        /\ UNCHANGED sh
Spec == Init /\ [][Next]_vars
=============================================================================
