------------------------------- MODULE Matcher -------------------------------
(***************************************************************************)
(* Opcode matching (internal/opcode).  A pattern is [bytes, mask]: it      *)
(* matches a byte string s iff s is at least as long as the pattern and    *)
(* agrees with it on every masked bit.  A matcher for a set of patterns    *)
(* exists iff every pattern is well formed and no byte string matches two  *)
(* of them; it maps a string to the unique matching pattern, if any.       *)
(***************************************************************************)
EXTENDS Integers, Sequences, FiniteSets, Bitwise, TLC

WellFormed(p) == /\ Len(p.bytes) > 0
                 /\ Len(p.bytes) = Len(p.mask)
                 /\ p.mask[Len(p.mask)] # 0
Matches(p, s) == /\ Len(s) >= Len(p.mask)
                 /\ \A i \in 1..Len(p.mask) : (s[i] & p.mask[i]) = (p.bytes[i] & p.mask[i])
Min2(a, b) == IF a < b THEN a ELSE b
\* some byte string matches both: on the common prefix the patterns agree
\* wherever both masks care
Ambiguous(p, q) == \A i \in 1..Min2(Len(p.mask), Len(q.mask)) :
                      ((p.bytes[i] & p.mask[i] & q.mask[i]) = (q.bytes[i] & p.mask[i] & q.mask[i]))
Buildable(ps) == /\ \A i \in 1..Len(ps) : WellFormed(ps[i])
                 /\ \A i, k \in 1..Len(ps) : i # k => ~Ambiguous(ps[i], ps[k])
\* 0-based index of the matching pattern, -1 if none (unique when Buildable)
MatchOf(ps, s) == LET ms == {i \in 1..Len(ps) : Matches(ps[i], s)} IN
                  IF ms = {} THEN -1 ELSE (CHOOSE i \in ms : TRUE) - 1
=============================================================================
