#!/usr/bin/env python3
"""tools/seed_recheck.py <seed-name> <check>... : re-run checks against an already stored seeded change and record the
result under "after_strengthening" in its meta.json"""
import json, subprocess, sys, os
name, checks = sys.argv[1], sys.argv[2:]
d = "/verif/seeded/" + name
m = json.load(open(d + "/meta.json"))
assert not subprocess.run("git -C /repo status --porcelain", shell=True, capture_output=True, text=True).stdout.strip(), "/repo dirty"
subprocess.run("git -C /repo apply %s/patch.diff" % d, shell=True, check=True)
try:
    for c in checks:
        r = subprocess.run("VERIF_NO_EVIDENCE=1 VERIF_TLC_TIMEOUT=900 ./check %s --tier quick" % c, shell=True, cwd="/verif", capture_output=True, text=True)
        v = [l for l in r.stdout.splitlines() if l.startswith("VIOLATION")]
        m.setdefault("after_strengthening", {})[c] = {"exit": r.returncode, "violations": len(v)}
        print(name, c, "exit", r.returncode, "violations", len(v))
finally:
    subprocess.run("git -C /repo checkout -- .", shell=True)
json.dump(m, open(d + "/meta.json", "w"), indent=1)
