#!/usr/bin/env python3
"""tools/seed_recheck.py <seed-name> <check>... : re-run checks against an already stored seeded change and record the
result under "after_strengthening" in its meta.json.  With SEED_SCRATCH=1 (a long background run is building from
/repo) the change is applied to a fresh scratch worktree and the checks build from it through VERIF_REPO."""
import json, subprocess, sys, os, shutil
name, checks = sys.argv[1], sys.argv[2:]
d = "/verif/seeded/" + name
m = json.load(open(d + "/meta.json"))
alt = os.environ.get("SEED_SCRATCH")
if alt:
    target = "/tmp/wtv/" + name + "-re"
    subprocess.run("git -C /repo worktree remove --force %s" % target, shell=True, capture_output=True)
    subprocess.run("git -C /repo worktree add -q --detach %s HEAD" % target, shell=True, check=True)
    envp = "VERIF_REPO=%s VERIF_OUT=/tmp/wtv/%s-reout " % (target, name)
else:
    target, envp = "/repo", ""
    assert not subprocess.run("git -C /repo status --porcelain", shell=True, capture_output=True, text=True).stdout.strip(), "/repo dirty"
subprocess.run("git -C %s apply %s/patch.diff" % (target, d), shell=True, check=True)
try:
    for c in checks:
        r = subprocess.run(envp + "VERIF_NO_EVIDENCE=1 VERIF_TLC_TIMEOUT=900 ./check %s --tier quick" % c, shell=True, cwd="/verif", capture_output=True, text=True)
        v = [l for l in r.stdout.splitlines() if l.startswith("VIOLATION")]
        m.setdefault("after_strengthening", {})[c] = {"exit": r.returncode, "violations": len(v)}
        print(name, c, "exit", r.returncode, "violations", len(v))
finally:
    if alt:
        subprocess.run("git -C /repo worktree remove --force %s" % target, shell=True)
        shutil.rmtree("/tmp/wtv/%s-reout" % name, ignore_errors=True)
    else:
        subprocess.run("git -C /repo checkout -- .", shell=True)
json.dump(m, open(d + "/meta.json", "w"), indent=1)
