"""tools/summ.py <check-id> [tier] : run the generator+harness+TLC of a check and summarise failing verdicts by class"""
import sys, collections, json, os
sys.path.insert(0, '/verif')
from driver import registry, core
pid = sys.argv[1]; tier = sys.argv[2] if len(sys.argv) > 2 else 'quick'
c = registry.checks()[pid]
gs = c.groups(tier, int(os.environ.get('VERIF_SEED', '1')))
lim = int(os.environ.get('VERIF_LIMIT', '0') or 0)
if lim: gs = gs[:lim]
core.build_harness()
evg = c.record(gs)
bad, st = c.validate(evg, pid + '-summ')
bad = c.filter_bad(bad)
cl = collections.Counter(); ex = {}
for b in bad:
    e = evg[b['group']][b['pos']]
    k = (e.get('lname') or e.get('name') or e.get('op'), e.get('variant'), b['why'])
    cl[k] += 1
    ex.setdefault(k, (b, e))
print(len(gs), 'groups', sum(len(x) for x in evg), 'events', len(bad), 'failing')
for k, n in sorted(cl.items(), key=lambda x: str(x)):
    b, e = ex[k]
    print(n, k, 'exp=', core.trim(b.get('exp'), 120), 'got=', core.trim(b.get('got'), 160), 'text=', e.get('text'), 'bytes=', e.get('bytes'), 'addr=', e.get('addr'))
