#!/usr/bin/env python3
"""tools/seed_eval.py <worktree-with-zz_seed> <seed-name> <property> [check ids ...]
Confirms a seeded change (compiles, existing tests pass, demonstration fails with / passes without it) in a scratch
worktree, then applies it to /repo, runs the given checks (default: the property's own), restores /repo and stores
everything under /verif/seeded/<seed-name>/."""
import json, os, shutil, subprocess, sys, glob, re
ENV = dict(os.environ, GOFLAGS="-mod=mod", GOPROXY="off", GOSUMDB="off", GOTOOLCHAIN="local")


def sh(cmd, cwd=None, timeout=3000):
    r = subprocess.run(cmd, shell=True, cwd=cwd, env=ENV, capture_output=True, text=True, timeout=timeout)
    return r.returncode, r.stdout + r.stderr


def main():
    wt, name, prop = sys.argv[1], sys.argv[2], sys.argv[3]
    checks = sys.argv[4:] or [prop]
    seed = os.path.join(wt, "zz_seed")
    meta = json.load(open(os.path.join(seed, "meta.json")))
    patch = os.path.join(seed, "patch.diff")
    demo_src = os.path.join(seed, "demo_test.go")
    out = os.path.join("/verif/seeded", name)
    os.makedirs(out, exist_ok=True)
    shutil.copy(patch, os.path.join(out, "patch.diff"))
    if os.path.exists(demo_src):
        shutil.copy(demo_src, os.path.join(out, "demo_test.go"))
    res = {"property": prop, "summary": meta.get("summary"), "needs": meta.get("needs"), "files": meta.get("files"),
           "demo_cmd": meta.get("demo_cmd"), "ran": {}}
    # 1. confirmation in a scratch worktree
    scratch = "/tmp/wtv/" + name
    sh("git -C /repo worktree remove --force %s" % scratch)
    rc, o = sh("git -C /repo worktree add -q --detach %s HEAD" % scratch)
    if rc:
        print(o); sys.exit(2)
    try:
        # where does the demo go?  the agent leaves it in its worktree: find untracked *_test.go files there
        rc, o = sh("git status --porcelain", cwd=wt)
        demos = [l[3:] for l in o.splitlines() if l.startswith("??") and l.endswith(".go") and not l[3:].startswith("zz_seed")]
        for d in demos:
            os.makedirs(os.path.dirname(os.path.join(scratch, d)), exist_ok=True)
            shutil.copy(os.path.join(wt, d), os.path.join(scratch, d))
        res["demo_files"] = demos
        pkgs = sorted({"./" + os.path.dirname(d) for d in demos})
        rc0, o0 = sh("go test -vet=off -count=1 %s" % " ".join(pkgs), cwd=scratch)
        res["ran"]["demo_without_change"] = {"rc": rc0, "tail": o0[-400:]}
        rc, o = sh("git apply %s" % patch, cwd=scratch)
        if rc:
            res["ran"]["apply"] = o
            print("patch does not apply:", o)
        rc1, o1 = sh("go test -vet=off -count=1 %s" % " ".join(pkgs), cwd=scratch)
        res["ran"]["demo_with_change"] = {"rc": rc1, "tail": o1[-600:]}
        for d in demos:
            os.remove(os.path.join(scratch, d))
        rc2, o2 = sh("go build ./... && go test -vet=off -count=1 ./...", cwd=scratch)
        res["ran"]["suite_with_change"] = {"rc": rc2, "tail": "\n".join(l for l in o2.splitlines() if not l.startswith("ok") and "no test files" not in l)[-400:]}
        res["confirmed"] = (rc0 == 0 and rc1 != 0 and rc2 == 0)
    finally:
        sh("git -C /repo worktree remove --force %s" % scratch)
    print("confirmed:", res["confirmed"], {k: v.get("rc") if isinstance(v, dict) else v for k, v in res["ran"].items()})
    # 2. run the checks against the change applied to /repo (or, with SEED_SCRATCH=1 while a long background run
    #    is using /repo, applied to a fresh scratch worktree that the checks build from through VERIF_REPO)
    alt = os.environ.get("SEED_SCRATCH")
    if alt:
        target = "/tmp/wtv/" + name + "-run"
        sh("git -C /repo worktree remove --force %s" % target)
        rc, o = sh("git -C /repo worktree add -q --detach %s HEAD" % target)
        envp = "VERIF_REPO=%s VERIF_OUT=/tmp/wtv/%s-out " % (target, name)
    else:
        target, envp = "/repo", ""
        rc, o = sh("git -C /repo status --porcelain")
        if o.strip():
            print("/repo is dirty"); sys.exit(2)
    rc, o = sh("git -C %s apply %s" % (target, patch))
    try:
        res["checks"] = {}
        res["applied_to"] = target
        for c in checks:
            rc, o = sh(envp + "VERIF_NO_EVIDENCE=1 VERIF_TLC_TIMEOUT=900 ./check %s --tier quick" % c, cwd="/verif")
            viol = [l for l in o.splitlines() if l.startswith("VIOLATION")]
            detail = [l for l in o.splitlines() if l.startswith("  case=")][:3]
            res["checks"][c] = {"exit": rc, "violations": len(viol), "detail": detail}
            print("check", c, "exit", rc, "VIOLATION lines", len(viol), detail[:1])
    finally:
        if alt:
            sh("git -C /repo worktree remove --force %s" % target)
            shutil.rmtree("/tmp/wtv/%s-out" % name, ignore_errors=True)
        else:
            sh("git -C /repo checkout -- .")
    json.dump(res, open(os.path.join(out, "meta.json"), "w"), indent=1)


if __name__ == "__main__":
    main()
