#!/bin/sh
# tools/revcheck.sh <fix-commit> <check-id>...  : re-introduce a repaired defect (reverse-apply the fix commit
# to /repo's working tree), run the checks (they must report a VIOLATION), restore the tree.
c=$1; shift
cd /repo || exit 2
git diff --quiet || { echo "repo dirty"; exit 2; }
git show "$c" | git apply -R || exit 2
for id in "$@"; do
  out=$(cd /verif && VERIF_NO_EVIDENCE=1 VERIF_TLC_TIMEOUT=600 ./check "$id" --tier quick 2>/dev/null | grep -c '^VIOLATION')
  echo "revert $c -> $id: $out VIOLATION lines"
done
git checkout -- . 
