#!/bin/sh
# tools/runall.sh [tier] : run every registered check (4 at a time), print one line each
tier=${1:-quick}
cd /verif
ids=$(python3 -c "import json;print(' '.join(c['property_id'] for c in json.load(open('MANIFEST.json'))['checks']))")
echo $ids | tr ' ' '\n' | xargs -P 4 -I{} sh -c "start=\$(date +%s); ./check {} --tier $tier > out/{}.$tier.log 2>&1; rc=\$?; echo {} exit=\$rc \$(( \$(date +%s) - start ))s \$(grep -c '^VIOLATION' out/{}.$tier.log) violations"
