"""Generic check runner: generate cases -> real code (harness) -> TLC trace
validation -> reproduce failures -> classify -> evidence."""
import json, os, re, sys, time, random
from . import core
from .core import Infra, log


class Check:
    """A property check.  Subclasses set pid, family, module and implement
    groups(tier, seed) -> list of groups; a group is a list of harness cases
    replayed in order by one harness process section (stateful traces) and
    validated together."""
    pid = None
    family = None         # harness family
    module = None         # trace spec module
    mc = []               # [(module, cfg)] design-level model checking configs
    mc_thorough = []      # additional ones for the thorough tier
    proofs = []           # TLAPS modules (spec/proof) checked in the thorough tier
    assumptions = []
    trusted = []
    rule = ""
    constants = ""
    max_report = 5
    extra_whys = ()       # verdict classes of the specification beyond the listed property: counted, never a VIOLATION
    level_text = ""
    level_note = ""
    technique = "TLA+ specification as oracle; TLC trace validation of recorded executions of the real code"
    design_ref = "DESIGN.md section 3"
    harness_timeout = 900
    tlc_timeout = 900

    def groups(self, tier, seed):
        raise NotImplementedError

    def nontrivial_key(self, group, events):
        """a hashable key if the group is non-trivial, else None"""
        return json.dumps(group, sort_keys=True)

    def filter_bad(self, bad):
        """drop verdicts that do not concern this property (shared families)"""
        return bad

    def harness_args(self):
        return ()

    # -- execution -------------------------------------------------------
    def record_single(self, groups):
        """all groups, in order, through ONE harness process (reproduction of a verdict that depends on what the same
        process handled before: process-global state of the code under test)"""
        flat = [c for g in groups for c in g]
        evs = core.run_harness(self.family, flat, self.harness_timeout, self.harness_args())
        out, pos = [], 0
        for g in groups:
            k = self.events_per_group(g)
            out.append(evs[pos:pos + k])
            pos += k
        if pos != len(evs):
            raise Infra("event count mismatch in family %s: %d != %d" % (self.family, pos, len(evs)))
        return out

    def process_history(self, groups, gi):
        """indices of the groups that the harness process of group gi handled before it (mirrors record())"""
        if getattr(self, "single_process", False):
            return list(range(gi))
        if self.stateful():
            n = max(1, min(core.NCPU, len(groups)))
        else:
            ncases = sum(len(g) for g in groups)
            if ncases < 64:
                n = 1
            elif all(len(g) == 1 for g in groups):
                n = core.NCPU
            else:
                return None
        return list(range(gi % n, gi, n))

    def record(self, groups):
        """run the real code; returns list of event lists (one per group)"""
        if getattr(self, "single_process", False) and len(groups) > 1:
            return self.record_single(groups)
        flat, idx = [], []
        for gi, g in enumerate(groups):
            for c in g:
                flat.append(c)
                idx.append(gi)
        if self.stateful():
            # one harness process per shard of whole groups
            n = max(1, min(core.NCPU, len(groups)))
            import concurrent.futures as cf
            shards = [list(range(k, len(groups), n)) for k in range(n)]

            def one(sh):
                cases = [c for gi in sh for c in groups[gi]]
                evs = core.run_harness(self.family, cases, self.harness_timeout, self.harness_args())
                return evs
            core.build_harness()
            with cf.ThreadPoolExecutor(n) as ex:
                res = list(ex.map(one, shards))
            out = [None] * len(groups)
            for sh, evs in zip(shards, res):
                pos = 0
                for gi in sh:
                    k = self.events_per_group(groups[gi])
                    out[gi] = evs[pos:pos + k]
                    pos += k
                if pos != len(evs):
                    raise Infra("event count mismatch in family %s: %d != %d" % (self.family, pos, len(evs)))
            return out
        evs = core.run_harness_parallel(self.family, flat, timeout=self.harness_timeout, args=self.harness_args())
        if len(evs) != len(flat):
            raise Infra("event count mismatch in family %s" % self.family)
        out = [[] for _ in groups]
        for e, gi in zip(evs, idx):
            out[gi].append(e)
        return out

    def stateful(self):
        return False

    def events_per_group(self, group):
        return len(group)

    def validate(self, evgroups, tag):
        return core.tlc_trace(self.module, None, tag, groups=evgroups, timeout=self.tlc_timeout,
                              constants=self.constants)

    def signature(self, b, group, events):
        return "%s|%s|%s" % (b.get("case", ""), b.get("why", ""), core.trim(b.get("got", ""), 200))


def classify(check, b, group, events):
    sig = check.signature(b, group, events)
    for kf in core.known_findings():
        if kf.get("status", "open") != "open" or kf["property"] != check.pid:
            continue
        if re.search(kf["match"], sig):
            return kf
    return None


def run_check(check, tier, seed, replay=None):
    t0 = time.time()
    pid = check.pid
    try:
        core.build_harness()
        if replay:
            payload = json.load(open(replay))
            groups = list(payload.get("history") or []) + [payload["group"]]
            check.single_process = len(groups) > 1      # the verdict depends on what the same process handled before
        else:
            groups = check.groups(tier, seed)
            lim = int(os.environ.get('VERIF_LIMIT', '0') or 0)
            if lim:
                groups = groups[:lim]
        t1 = time.time()
        evgroups = check.record(groups)
        t2 = time.time()
        bad, stats = check.validate(evgroups, pid)
        log('[%s] gen+build %.1fs, record %.1fs, validate %.1fs' % (pid, t1 - t0, t2 - t1, time.time() - t2))
        extra = [b for b in bad if b.get("why") in check.extra_whys]
        bad = [b for b in check.filter_bad(bad) if b.get("why") not in check.extra_whys]
        if extra:
            log("[%s] NOTE: %d events disagree with parts of the specification beyond this property (%s), e.g. %s" %
                (pid, len(extra), sorted({b["why"] for b in extra}), core.trim(extra[0], 300)))
        # design-level model checking (the specification's own invariants)
        mcstats = {"states": 0, "distinct": 0}
        mcruns = []
        if not replay:
            for (mod, cfg) in list(check.mc) + (list(check.mc_thorough) if tier == "thorough" else []):
                # thorough tier: with TLC's coverage statistics (vacuity: actions never taken, expressions never evaluated)
                st, _ = core.tlc_mc(mod, cfg, pid + "-mc", extra=("-coverage", "1") if tier == "thorough" else ())
                mcstats["states"] += st["states"]
                mcstats["distinct"] += st["distinct"]
                mcruns.append({"cfg": cfg, **st})
        proofruns = []
        if not replay and tier == "thorough":
            for mod in check.proofs:
                proofruns.append(dict(core.tlaps(mod, pid + "-tlaps"), module=mod))
        # reproduce each failing group on a fresh harness process
        violations, known, reported = [], {}, 0
        seen_groups = set()
        for b in bad:
            gi = b["group"]
            if gi in seen_groups:
                continue
            seen_groups.add(gi)
            g = groups[gi]
            kf = classify(check, b, g, evgroups[gi])
            if kf is not None:
                known.setdefault(kf["id"], kf)
                continue
            if reported >= check.max_report:
                violations.append((b, None))
                continue
            ev2 = check.record([g])
            bad2, _ = check.validate(ev2, pid + "-repro")
            bad2 = check.filter_bad(bad2)
            history = []
            if not any(x["why"] == b["why"] and x["pos"] == b["pos"] for x in bad2):
                # not reproduced on a fresh process: does it depend on what the same process handled before?
                hist = check.process_history(groups, gi)
                if hist:
                    hg = [groups[k] for k in hist] + [g]
                    was = getattr(check, "single_process", False)
                    check.single_process = True
                    try:
                        ev3 = check.record(hg)
                    finally:
                        check.single_process = was
                    bad3, _ = check.validate(ev3, pid + "-repro")
                    bad3 = check.filter_bad(bad3)
                    if any(x["why"] == b["why"] and x["pos"] == b["pos"] and x["group"] == len(hg) - 1 for x in bad3):
                        history = hg[:-1]
                if not history:
                    raise Infra("counterexample did not reproduce: " + core.trim(b))
            path = core.save_replay(pid, {"property": pid, "family": check.family, "module": check.module,
                                          "tier": tier, "seed": seed, "group": g, "history": history, "verdict": b})
            violations.append((b, path))
            reported += 1
        for kf in known.values():
            print("KNOWN-FINDING: property=%s %s" % (pid, kf["what"]))
        for b, path in violations:
            if path:
                print("VIOLATION property=%s replay=%s" % (pid, path))
                log("  case=%s why=%s exp=%s got=%s" % (b.get("case"), b.get("why"), core.trim(b.get("exp")), core.trim(b.get("got"))))
        nevents = sum(len(g) for g in evgroups)
        keys = set()
        for g, evs in zip(groups, evgroups):
            k = check.nontrivial_key(g, evs)
            if k is not None:
                keys.add(k)
        sample_groups = [g for g in groups[:1]] + ([groups[len(groups) // 2]] if len(groups) > 2 else [])
        cov = {
            "states": stats["distinct"] + mcstats["distinct"],
            "transitions": stats["states"] + mcstats["states"],
            "traces_validated_against_impl": len(groups),
            "evaluations": nevents,
            "distinct_nontrivial": len(keys),
            "rule": check.rule,
            "samples": [json.loads(core.trim(json.dumps(sg), 1500)) if len(json.dumps(sg)) <= 1500
                        else {"truncated": core.trim(json.dumps(sg), 1500)} for sg in sample_groups],
            "trace_spec": check.module,
            "trace_states": stats["distinct"],
            "model_checking_runs": mcruns,
            "tlaps_proofs": proofruns,
            "failing_events": len(bad),
            "beyond_property": {"judged_classes": sorted(check.extra_whys), "disagreeing_events": len(extra),
                                "example": core.trim(extra[0], 400) if extra else ""},
            "known_findings_hit": sorted(known.keys()),
            "trusted_base": check.trusted,
            "exhaustive": bool(getattr(check, "exhaustive", False)),
            "explanation": getattr(check, "explanation", ""),
        }
        if not replay and not os.environ.get('VERIF_NO_EVIDENCE'):
            core.write_evidence(pid, tier, seed, cov, time.time() - t0, len(violations), check.assumptions)
        log("[%s] %s: %d groups, %d events, %d failing, %d violations, %.1fs" %
            (pid, tier, len(groups), nevents, len(bad), len(violations), time.time() - t0))
        return 1 if violations else 0
    except Infra as e:
        log("[%s] INFRASTRUCTURE ERROR: %s" % (pid, e))
        return 2


# ------------------------------------------------------------------ selftest
def _mutate(v):
    """a different value of the same JSON type"""
    if isinstance(v, bool):
        return not v
    if isinstance(v, int):
        return v + 1
    if isinstance(v, str):
        return v + "x"
    if isinstance(v, list):
        if not v:
            return [0]
        if all(isinstance(x, int) and not isinstance(x, bool) for x in v):
            return [(v[0] + 1) % 256] + v[1:]
        return v[:-1]
    if isinstance(v, dict):
        # corrupt the first entry (in key order) that can be corrupted
        for k in sorted(v):
            m = _mutate(v[k])
            if m != v[k]:
                return dict(v, **{k: m})
    return v


def run_selftest(check, seed):
    """Binding demonstration: corrupt one recorded field at a time in executions recorded from the unchanged tree and
    show that trace validation rejects the corrupted trace; writes /verif/selftest/<id>.json"""
    import copy
    pid = check.pid
    try:
        core.build_harness()
        groups = check.groups("quick", seed)
        step = max(1, len(groups) // 150)
        groups = groups[::step][:150]
        evg = check.record(groups)
        base_bad, _ = check.validate(evg, pid + "-self0")
        base_bad = check.filter_bad(base_bad)
        fields = getattr(check, "selftest_fields", None)
        if fields is None:
            keys = set()
            for evs in evg:
                for e in evs:
                    keys |= set(e.keys())
            fields = sorted(keys - {"case", "panic"})
        report = {"property": pid, "baseline_failing": len(base_bad), "fields": {}}
        for f in fields:
            mut = copy.deepcopy(evg)
            n = 0
            for evs in mut:
                for e in evs:
                    if f in e and e[f] not in (None, "", [], {}) or (f in e and isinstance(e[f], (bool, int))):
                        e[f] = _mutate(e[f])
                        n += 1
            if not n:
                continue
            try:
                bad, _ = check.validate(mut, pid + "-self")
                bad = check.filter_bad(bad)
                report["fields"][f] = {"mutated_events": n, "rejected_events": len(bad), "bound": len(bad) > len(base_bad)}
            except Infra as e:
                # the trace specification could not even evaluate the corrupted trace: also a rejection
                report["fields"][f] = {"mutated_events": n, "rejected_events": -1, "bound": True, "note": "TLC could not evaluate the corrupted trace"}
            log("[%s] selftest field %-10s mutated %5d -> %s" % (pid, f, n, report["fields"][f]))
        os.makedirs(os.path.join(core.VERIF, "selftest"), exist_ok=True)
        with open(os.path.join(core.VERIF, "selftest", pid + ".json"), "w") as fh:
            json.dump(report, fh, indent=1, sort_keys=True)
        unbound = [f for f, r in report["fields"].items() if not r["bound"]]
        log("[%s] selftest: %d fields, not bound: %s" % (pid, len(report["fields"]), unbound))
        return 0
    except Infra as e:
        log("[%s] INFRASTRUCTURE ERROR: %s" % (pid, e))
        return 2
