import sys
from . import runner


def checks():
    from .checks import ir
    cs = [ir.C09()]
    return {c.pid: c for c in cs}


def main(pid, tier, seed, replay):
    cs = checks()
    if pid not in cs:
        print("unknown property " + pid, file=sys.stderr)
        return 2
    return runner.run_check(cs[pid], tier, seed, replay)
