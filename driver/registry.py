import sys
from . import runner


def checks():
    from .checks import ir, mem, intv, rv, deps, emu, match, ui, elfchk, startup
    cs = [ir.C09(), ir.C10(), ir.C11(), ir.C12(), ir.C13(), ir.C28(), ir.C27(), mem.C14(), mem.C15(), mem.C16(), mem.C18(), intv.C17(), rv.C01(), rv.C02(), rv.C25(), rv.C21(), emu.C05(), deps.C06(), deps.C07(), deps.C08(), emu.C03(), emu.C04(), match.C19(), ui.C22(), ui.C23(), ui.C24(), ui.C29(), ui.C30(), ui.C31(), ui.C32(), elfchk.C20(), startup.C26()]
    return {c.pid: c for c in cs}


def extras():
    """checks beyond the listed properties (not in MANIFEST.json)"""
    from .checks import extras as ex
    return {c.pid: c for c in [ex.X01(), ex.X02()]}


def not_applicable():
    """properties not claimed, with the reason"""
    return {}


def main(pid, tier, seed, replay, selftest=False):
    cs = dict(checks())
    cs.update(extras())
    if pid not in cs:
        print("unknown property " + pid, file=sys.stderr)
        return 2
    if selftest:
        return runner.run_selftest(cs[pid], seed)
    return runner.run_check(cs[pid], tier, seed, replay)
