import sys
from . import runner


def checks():
    from .checks import ir
    cs = [ir.C09(), ir.C10(), ir.C11(), ir.C12(), ir.C13()]
    return {c.pid: c for c in cs}


def not_applicable():
    """properties not claimed, with the reason"""
    return {}


def main(pid, tier, seed, replay):
    cs = checks()
    if pid not in cs:
        print("unknown property " + pid, file=sys.stderr)
        return 2
    return runner.run_check(cs[pid], tier, seed, replay)
