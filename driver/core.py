"""Shared machinery of /verif checks: build the harness from /repo's working
tree, run it, run TLC on the recorded traces, collect verdicts, write evidence.

Exit codes of a check: 0 conforming, 1 VIOLATION (reproduced on the real code),
2 infrastructure trouble (never a verdict)."""
import re, json, os, shutil, subprocess, sys, time, hashlib, random, tempfile, concurrent.futures as cf

VERIF = os.path.dirname(os.path.dirname(os.path.abspath(__file__)))
REPO = os.environ.get("VERIF_REPO", "/repo")
SPEC = os.path.join(VERIF, "spec")
OUT = os.environ.get("VERIF_OUT") or os.path.join(VERIF, "out")
BIN = os.path.join(OUT, "bin", "zzverif")
TLA_CP = "/opt/veriftools/tla/tla2tools.jar:/opt/veriftools/tla/CommunityModules-deps.jar"
GOENV = dict(os.environ, GOFLAGS="-mod=mod", GOPROXY="off", GOSUMDB="off", GOTOOLCHAIN="local")
NCPU = min(16, os.cpu_count() or 4)


class Infra(Exception):
    pass


def log(*a):
    print(*a, file=sys.stderr, flush=True)


# ----------------------------------------------------------------- harness
def overlay_map():
    h = os.path.join(VERIF, "harness")
    m = {}
    for line in open(os.path.join(h, "overlay.map")):
        line = line.strip()
        if not line or line.startswith("#"):
            continue
        virt, real = line.split()
        m[os.path.join(REPO, virt)] = os.path.join(h, real)
    return m


_built = False


def build_harness(force=False):
    """go build -tags verif -overlay ... from /repo's current working tree."""
    global _built
    if _built and not force:
        return BIN
    os.makedirs(os.path.dirname(BIN), exist_ok=True)
    ov = os.path.join(OUT, "overlay.%d.json" % os.getpid())
    with open(ov, "w") as f:
        json.dump({"Replace": overlay_map()}, f)
    binp = BIN + ".%d" % os.getpid()
    try:
        r = subprocess.run(["go", "build", "-tags", "verif", "-overlay", ov, "-o", binp, "./internal/zzverif"],
                           cwd=REPO, env=GOENV, capture_output=True, text=True, timeout=600)
    finally:
        try:
            os.unlink(ov)
        except OSError:
            pass
    if r.returncode != 0:
        raise Infra("harness build failed:\n" + r.stdout + r.stderr)
    os.replace(binp, BIN)
    _built = True
    return BIN


def run_harness(family, cases, timeout=600, args=()):
    """cases: list of dicts -> list of event dicts (one harness process)."""
    build_harness()
    inp = "".join(json.dumps(c, separators=(",", ":")) + "\n" for c in cases)
    try:
        r = subprocess.run([BIN, family, *args], input=inp, capture_output=True, text=True, timeout=timeout)
    except subprocess.TimeoutExpired:
        raise Infra("harness timeout in family " + family)
    if r.returncode != 0:
        raise Infra("harness failed (%d) in family %s:\n%s" % (r.returncode, family, r.stderr[-4000:]))
    return [json.loads(l) for l in r.stdout.splitlines() if l.strip()]


def run_harness_parallel(family, cases, nshards=NCPU, timeout=600, args=()):
    if len(cases) < 64 or nshards <= 1:
        return run_harness(family, cases, timeout, args)
    build_harness()
    shards = [cases[i::nshards] for i in range(nshards)]
    with cf.ThreadPoolExecutor(nshards) as ex:
        res = list(ex.map(lambda s: run_harness(family, s, timeout, args), shards))
    # restore the original order
    out = [None] * len(cases)
    for k, evs in enumerate(res):
        if len(evs) != len(shards[k]):
            raise Infra("harness returned %d events for %d cases" % (len(evs), len(shards[k])))
        for i, e in enumerate(evs):
            out[k + i * nshards] = e
    return out


# --------------------------------------------------------------------- TLC
def scratch(tag):
    d = os.path.join(OUT, "run", "%s-%d-%d" % (tag, os.getpid(), int(time.time() * 1000) % 100000000))
    os.makedirs(d, exist_ok=True)
    return d


def copy_specs(dst):
    for root, _, files in os.walk(SPEC):
        for f in files:
            if f.endswith(".tla"):
                shutil.copy(os.path.join(root, f), os.path.join(dst, f))


def tlc_cmd(module, cfg, workers=1, extra=(), xmx="1500m"):
    return ["java", "-XX:+UseParallelGC", "-XX:ParallelGCThreads=2", "-XX:CICompilerCount=2", "-Xss512m", "-Xmx" + xmx, "-cp", TLA_CP, "tlc2.TLC",
            "-workers", str(workers), "-fpmem", "0.05", "-metadir", "md", "-config", cfg, *extra, module + ".tla"]


def parse_tlc_stats(text):
    st = {"states": 0, "distinct": 0}
    for line in text.splitlines():
        if "states generated" in line and "distinct states found" in line:
            p = line.replace(",", "").split()
            try:
                st["states"] = int(p[0])
                st["distinct"] = int(p[3])
            except (ValueError, IndexError):
                pass
    return st


TLC_CHUNK = int(os.environ.get("VERIF_TLC_CHUNK", "0") or 0) or 48 << 20


def tlc_trace(module, events, tag, nshards=None, timeout=1800, constants="", groups=None):
    """Validate recorded events against trace spec `module`.  TLC holds a whole trace file in memory (as TLA+
    values, many times the size of the JSON), so large recordings are validated in batches of whole groups of at most
    TLC_CHUNK bytes of JSON, one TLC process after the other; verdicts and state counts are merged."""
    if groups is None:
        groups = [[e] for e in events]
    sizes = [sum(len(json.dumps(e, separators=(",", ":"))) + 1 for e in g) for g in groups]
    if sum(sizes) <= TLC_CHUNK:
        return _tlc_trace_one(module, tag, nshards, timeout, constants, groups)
    batches, cur, n = [], [], 0
    for gi, g in enumerate(groups):
        if cur and n + sizes[gi] > TLC_CHUNK:
            batches.append(cur)
            cur, n = [], 0
        cur.append(gi)
        n += sizes[gi]
    if cur:
        batches.append(cur)
    bad, stats = [], {"states": 0, "distinct": 0}
    for bi, b in enumerate(batches):
        log("[tlc] %s batch %d/%d (%d groups)" % (module, bi + 1, len(batches), len(b)))
        bb, st = _tlc_trace_one(module, "%s-b%d" % (tag, bi), nshards, timeout, constants, [groups[gi] for gi in b])
        bad += [dict(v, group=b[v["group"]]) for v in bb]
        stats["states"] += st["states"]
        stats["distinct"] += st["distinct"]
    return bad, stats


def _tlc_trace_one(module, tag, nshards, timeout, constants, groups):
    """Validate recorded events against trace spec `module` in ONE TLC process:
    the groups (lists of events that stay together, in order: one trace each)
    are packed into shards, every shard is one behaviour of the trace spec, and
    TLC's workers validate the shards in parallel.
    Returns (failing verdicts with 'group' and 'pos', stats)."""
    timeout = int(os.environ.get("VERIF_TLC_TIMEOUT", "0") or 0) or timeout
    groups_idx = [gi for gi in range(len(groups)) if groups[gi]]
    if not groups_idx:
        return [], {"states": 0, "distinct": 0}
    if nshards is None:
        nshards = 4 * NCPU
    nshards = max(1, min(nshards, len(groups_idx)))
    shards = [[] for _ in range(nshards)]
    sizes = [0] * nshards
    for gi in sorted(groups_idx, key=lambda i: -len(groups[i])):
        k = sizes.index(min(sizes))
        shards[k].append(gi)
        sizes[k] += len(groups[gi])
    d = scratch(tag)
    try:
        copy_specs(d)
        back, bounds, n = [], [0], 0
        with open(os.path.join(d, "events.ndjson"), "w") as f:
            for k in range(nshards):
                for gi in sorted(shards[k]):
                    for ei, e in enumerate(groups[gi]):
                        f.write(json.dumps(e, separators=(",", ":")) + "\n")
                        back.append((gi, ei))
                        n += 1
                bounds.append(n)
        with open(os.path.join(d, "t.cfg"), "w") as f:
            f.write('SPECIFICATION Spec\nCHECK_DEADLOCK FALSE\n'
                    'CONSTANT TraceFile = "events.ndjson"\nCONSTANT OutPrefix = "verdict_"\n'
                    'CONSTANT BoundsFile = "bounds.json"\n' + constants)
        with open(os.path.join(d, "bounds.json"), "w") as f:
            json.dump(bounds, f)
        try:
            r = subprocess.run(tlc_cmd(module, "t.cfg", workers=min(NCPU, nshards), xmx="12g"), cwd=d,
                               capture_output=True, text=True, timeout=timeout)
        except subprocess.TimeoutExpired:
            raise Infra("TLC timeout validating %s (%d events)" % (module, n))
        bad, missing = [], []
        for k in range(nshards):
            vf = os.path.join(d, "verdict_%d.json" % (k + 1))
            if not os.path.exists(vf):
                missing.append(k + 1)
                continue
            v = json.load(open(vf))
            if v["consumed"] != bounds[k + 1]:
                missing.append(k + 1)
            for b in v["bad"]:
                gi, ei = back[b["line"] - 1]
                bad.append(dict(b, group=gi, pos=ei))
        if r.returncode != 0 or missing:
            keep = os.path.join(OUT, "failed-" + tag)
            shutil.rmtree(keep, ignore_errors=True)
            shutil.copytree(d, keep)
            with open(os.path.join(keep, "tlc.out"), "w") as f:
                f.write(r.stdout + r.stderr)
            raise Infra("TLC failed (%d) on %s, shards not consumed: %s; scratch kept at %s\n%s"
                        % (r.returncode, module, missing[:5], keep, r.stdout[-3000:]))
        return bad, parse_tlc_stats(r.stdout)
    finally:
        shutil.rmtree(d, ignore_errors=True)


def coverage_report(text):
    """TLC -coverage 1 output: actions with their (distinct : generated) counts and expressions never evaluated"""
    acts, zero = [], []
    for line in text.splitlines():
        t = line.strip()
        m = re.match(r"^<(\w+) line (\d+), col \d+ to line \d+, col \d+ of module (\w+)(?: \((\d+) [\d ]+\))?>: (\d+):(\d+)", t)
        if m:
            name = m.group(1) + ("@line%s" % m.group(4) if m.group(4) else "")
            acts.append({"action": name, "module": m.group(3), "distinct": int(m.group(5)), "generated": int(m.group(6))})
            continue
        m = re.match(r"^\|*line (\d+), col (\d+) to line (\d+), col (\d+) of module (\w+): 0$", t)
        if m:
            zero.append("%s:%s.%s-%s.%s" % (m.group(5), m.group(1), m.group(2), m.group(3), m.group(4)))
    return {"actions": acts, "never_evaluated": sorted(set(zero))[:40], "never_taken_actions": [a["action"] for a in acts if a["generated"] == 0]}


def tlc_mc(module, cfgname, tag, workers=NCPU, timeout=1800, extra=()):
    """Model-check spec/mc/<cfgname>.cfg. Returns stats; raises Infra on any
    error (a violated invariant of the *specification* is a broken oracle, not
    a verdict about the code)."""
    d = scratch(tag)
    try:
        copy_specs(d)
        shutil.copy(os.path.join(SPEC, "mc", cfgname + ".cfg"), os.path.join(d, cfgname + ".cfg"))
        try:
            r = subprocess.run(tlc_cmd(module, cfgname + ".cfg", workers=workers, extra=extra, xmx="8g"),
                               cwd=d, capture_output=True, text=True, timeout=timeout)
        except subprocess.TimeoutExpired:
            raise Infra("TLC timeout model checking " + cfgname)
        if r.returncode != 0 or "No error has been found" not in r.stdout:
            raise Infra("model checking %s failed (%d):\n%s" % (cfgname, r.returncode, r.stdout[-3000:]))
        st = parse_tlc_stats(r.stdout)
        if "-coverage" in extra:
            st["coverage"] = coverage_report(r.stdout)
        return st, r.stdout
    finally:
        shutil.rmtree(d, ignore_errors=True)


# ---------------------------------------------------------------- evidence
def known_findings():
    p = os.path.join(VERIF, "known_findings.json")
    if not os.path.exists(p):
        return []
    return json.load(open(p)).get("findings", [])


def write_evidence(pid, tier, seed, coverage, wall, violations, assumptions, level="model_checking"):
    edir = "evidence" if pid.startswith("C") else "evidence_extra"
    os.makedirs(os.path.join(VERIF, edir), exist_ok=True)
    ev = {"property_id": pid, "tier": tier, "seed": int(seed), "level": level,
          "coverage": coverage, "assumptions": assumptions, "wall_s": round(wall, 2),
          "violations": int(violations)}
    tmp = os.path.join(VERIF, edir, ".%s.%d.tmp" % (pid, os.getpid()))
    with open(tmp, "w") as f:
        json.dump(ev, f, indent=1, sort_keys=True)
        f.write("\n")
    os.replace(tmp, os.path.join(VERIF, edir, pid + ".json"))


def save_replay(pid, payload):
    d = os.path.join(OUT, "replay", pid)
    os.makedirs(d, exist_ok=True)
    s = json.dumps(payload, sort_keys=True)
    p = os.path.join(d, hashlib.sha1(s.encode()).hexdigest()[:12] + ".json")
    with open(p, "w") as f:
        f.write(s)
    return p


def trim(x, n=400):
    s = json.dumps(x, separators=(",", ":")) if not isinstance(x, str) else x
    return s if len(s) <= n else s[:n] + "..."


# ------------------------------------------------ TLC as behaviour generator
def tlc_generate(module, cfg_text, tag, simulate=None, seed=1, timeout=900, workers=1, marker="HIST"):
    """Run spec/mc/<module>.tla with the given cfg text; the spec prints
    <<"HIST", "<json>">> lines (PrintT from an invariant) - one per distinct
    abstract state (BFS with VIEW) or per visited state (-simulate).
    Returns (list of decoded JSON values, stats)."""
    d = scratch(tag)
    try:
        copy_specs(d)
        with open(os.path.join(d, "g.cfg"), "w") as f:
            f.write(cfg_text)
        extra = []
        if simulate:
            extra = ["-simulate", "num=%d" % simulate["num"], "-depth", str(simulate["depth"]), "-seed", str(seed)]
        try:
            r = subprocess.run(tlc_cmd(module, "g.cfg", workers=workers, extra=extra, xmx="6g"), cwd=d,
                               capture_output=True, text=True, timeout=timeout)
        except subprocess.TimeoutExpired:
            raise Infra("TLC timeout generating behaviours from " + module)
        ok = ("No error has been found" in r.stdout) or (simulate and "Finished" in r.stdout and "Error:" not in r.stdout)
        if not ok:
            raise Infra("behaviour generation from %s failed (%d):\n%s" % (module, r.returncode, r.stdout[-3000:]))
        out, seen = [], set()
        pre = '<<"%s", "' % marker
        for line in r.stdout.splitlines():
            if line.startswith(pre) and line.endswith('">>'):
                s = line[len(pre):-3].replace('\\"', '"').replace("\\\\", "\\")
                if s in seen:
                    continue
                seen.add(s)
                out.append(json.loads(s))
        return out, parse_tlc_stats(r.stdout)
    finally:
        shutil.rmtree(d, ignore_errors=True)


# ------------------------------------------------------------------- TLAPS
def tlaps(module, tag, timeout=900):
    """check spec/proof/<module>.tla with tlapm; returns {"obligations": n, "discharged": n}; Infra on any unproved obligation"""
    d = scratch(tag)
    try:
        shutil.copy(os.path.join(SPEC, "proof", module + ".tla"), d)
        try:
            r = subprocess.run(["tlapm", "--threads", str(NCPU), "--cleanfp", module + ".tla"], cwd=d, capture_output=True, text=True, timeout=timeout)
        except subprocess.TimeoutExpired:
            raise Infra("tlapm timeout on " + module)
        out = r.stdout + r.stderr
        import re
        m = re.search(r"All (\d+) obligations? proved", out)
        if r.returncode != 0 or not m:
            raise Infra("tlapm did not prove %s:\n%s" % (module, out[-2000:]))
        n = int(m.group(1))
        return {"obligations": n, "discharged": n, "checker_cmd": "tlapm --threads %d --cleanfp %s.tla" % (NCPU, module)}
    finally:
        shutil.rmtree(d, ignore_errors=True)
