"""Instruction-word generators for the RISC-V front end checks.  Only shapes:
which bit patterns to try.  Whether a word is an instruction, which one, and
what it does is decided by spec/RV.tla."""

def r_type(op, f3, f7, rd=0, rs1=0, rs2=0):
    return op | rd << 7 | f3 << 12 | rs1 << 15 | rs2 << 20 | f7 << 25

def i_type(op, f3, rd=0, rs1=0, imm=0):
    return op | rd << 7 | f3 << 12 | rs1 << 15 | (imm & 0xFFF) << 20

def s_type(op, f3, rs1=0, rs2=0, imm=0):
    imm &= 0xFFF
    return op | (imm & 31) << 7 | f3 << 12 | rs1 << 15 | rs2 << 20 | (imm >> 5) << 25

def b_type(op, f3, rs1=0, rs2=0, imm=0):
    imm &= 0x1FFF
    return (op | ((imm >> 11) & 1) << 7 | ((imm >> 1) & 15) << 8 | f3 << 12 | rs1 << 15 | rs2 << 20
            | ((imm >> 5) & 63) << 25 | ((imm >> 12) & 1) << 31)

def u_type(op, rd=0, imm20=0):
    return op | rd << 7 | (imm20 & 0xFFFFF) << 12

def j_type(op, rd=0, imm=0):
    imm &= 0x1FFFFF
    return (op | rd << 7 | ((imm >> 12) & 255) << 12 | ((imm >> 11) & 1) << 20 | ((imm >> 1) & 1023) << 21
            | ((imm >> 20) & 1) << 31)

# (name, format, op, f3, f7/funct, xlen(0 = both, 64 = RV64 only), ext)
T = []
def add(name, fmt, op, f3=0, f7=0, xlen=0, ext="I"):
    T.append(dict(name=name, fmt=fmt, op=op, f3=f3, f7=f7, xlen=xlen, ext=ext))

add("lui", "U", 0x37); add("auipc", "U", 0x17); add("jal", "J", 0x6F); add("jalr", "I", 0x67, 0)
for i, n in enumerate(["beq", "bne", None, None, "blt", "bge", "bltu", "bgeu"]):
    if n: add(n, "B", 0x63, i)
for i, n in enumerate(["lb", "lh", "lw", "ld", "lbu", "lhu", "lwu"]):
    add(n, "I", 0x03, i, xlen=64 if n in ("ld", "lwu") else 0)
for i, n in enumerate(["sb", "sh", "sw", "sd"]):
    add(n, "S", 0x23, i, xlen=64 if n == "sd" else 0)
for i, n in enumerate(["addi", None, "slti", "sltiu", "xori", None, "ori", "andi"]):
    if n: add(n, "I", 0x13, i)
add("slli", "SH", 0x13, 1, 0); add("srli", "SH", 0x13, 5, 0); add("srai", "SH", 0x13, 5, 0x20)
for i, n in enumerate(["add", "sll", "slt", "sltu", "xor", "srl", "or", "and"]):
    add(n, "R", 0x33, i, 0)
add("sub", "R", 0x33, 0, 0x20); add("sra", "R", 0x33, 5, 0x20)
add("fence", "FENCE", 0x0F, 0); add("fence.i", "EXACT", 0x0F, 1); add("ecall", "EXACT", 0x73, 0, 0); add("ebreak", "EXACT", 0x73, 0, 1)
for i, n in enumerate([None, "csrrw", "csrrs", "csrrc", None, "csrrwi", "csrrsi", "csrrci"]):
    if n: add(n, "CSR", 0x73, i)
add("addiw", "I", 0x1B, 0, xlen=64)
add("slliw", "SHW", 0x1B, 1, 0, xlen=64); add("srliw", "SHW", 0x1B, 5, 0, xlen=64); add("sraiw", "SHW", 0x1B, 5, 0x20, xlen=64)
add("addw", "R", 0x3B, 0, 0, 64); add("subw", "R", 0x3B, 0, 0x20, 64); add("sllw", "R", 0x3B, 1, 0, 64)
add("srlw", "R", 0x3B, 5, 0, 64); add("sraw", "R", 0x3B, 5, 0x20, 64)
for i, n in enumerate(["mul", "mulh", "mulhsu", "mulhu", "div", "divu", "rem", "remu"]):
    add(n, "R", 0x33, i, 1, ext="M")
for i, n in enumerate(["mulw", None, None, None, "divw", "divuw", "remw", "remuw"]):
    if n: add(n, "R", 0x3B, i, 1, 64, "M")
AMO = {"lr": 2, "sc": 3, "amoswap": 1, "amoadd": 0, "amoxor": 4, "amoand": 12, "amoor": 8, "amomin": 16, "amomax": 20,
       "amominu": 24, "amomaxu": 28}
for n, f5 in AMO.items():
    add(n + ".w", "AMO", 0x2F, 2, f5, ext="A")
    add(n + ".d", "AMO", 0x2F, 3, f5, 64, "A")

REGS = [0, 1, 2, 5, 10, 31]
IMM12 = [0, 1, -1, 2047, -2048, 5, 0x555, -0x556, 4, -4, 8, 16, 0x7F0, 1 << 10]
IMM20 = [0, 1, 0xFFFFF, 0x80000, 0x7FFFF, 0x12345, 0xABCDE]
IMMB = [0, 2, -2, 4, -4, 8, 4094, -4096, 0x800, -0x800, 0x554, 0xAAA & ~1]
IMMJ = [0, 2, -2, 4, -4, 8, 0xFFFFE, -0x100000, 0x800, 0x1000, -0x1000, 0x55554, 0xAAAAA & ~1]
CSRS = [0, 1, 0x300, 0x7FF, 0x800, 0xFFF, 0xC00]


def encode(t, rng, xlen):
    """one word of template t with fields drawn from the edge grids"""
    rd, rs1, rs2 = rng.choice(REGS), rng.choice(REGS), rng.choice(REGS)
    c = rng.random()
    if c < 0.15:
        rs2 = rs1
    elif c < 0.3:
        rd = rs1
    elif c < 0.4:
        rd = rs2 = rs1
    f = t["fmt"]
    if f == "U":
        return u_type(t["op"], rd, rng.choice(IMM20))
    if f == "J":
        return j_type(t["op"], rd, rng.choice(IMMJ))
    if f == "I":
        return i_type(t["op"], t["f3"], rd, rs1, rng.choice(IMM12))
    if f == "S":
        return s_type(t["op"], t["f3"], rs1, rs2, rng.choice(IMM12))
    if f == "B":
        return b_type(t["op"], t["f3"], rs1, rs2, rng.choice(IMMB))
    if f == "R":
        return r_type(t["op"], t["f3"], t["f7"], rd, rs1, rs2)
    if f == "SH":
        bits = 6 if xlen == 64 else 5
        sh = rng.choice([0, 1, 2, 7, 8, 15, 16, 31] + ([32, 33, 63] if bits == 6 else []))
        return i_type(t["op"], t["f3"], rd, rs1, sh | (t["f7"] << 5))
    if f == "SHW":
        sh = rng.choice([0, 1, 2, 7, 8, 15, 16, 31])
        return i_type(t["op"], t["f3"], rd, rs1, sh | (t["f7"] << 5))
    if f == "FENCE":
        return i_type(t["op"], 0, 0, 0, rng.choice([0, 0xFF, 0x33, 0x0F, 0xF0, 0x81]))
    if f == "EXACT":
        return i_type(t["op"], t["f3"], 0, 0, t["f7"])
    if f == "CSR":
        return i_type(t["op"], t["f3"], rd, rs1 if rng.random() < 0.7 else rng.randrange(32), rng.choice(CSRS))
    if f == "AMO":
        aqrl = rng.randrange(4)
        if t["name"].startswith("lr"):
            rs2 = 0
        return r_type(t["op"], t["f3"], (t["f7"] << 2) | aqrl, rd, rs1, rs2)
    raise ValueError(f)


def valid_in(t, xlen, exts):
    if t["xlen"] == 64 and xlen != 64:
        return False
    return t["ext"] == "I" or t["ext"] in exts


def word_bytes(w):
    return [(w >> (8 * i)) & 255 for i in range(4)]


CONFIGS = [(x, e) for x in (32, 64) for e in ("", "M", "A", "MA")]
