"""C19: opcode matching is unambiguous and exact (TraceMatch, spec/Matcher.tla)."""
import itertools, random
from ..runner import Check


class C19(Check):
    pid = "C19"
    family = "match"
    module = "TraceMatch"
    mc = [("Matcher_MC", "Matcher_MC")]
    exhaustive = True
    level_text = ("spec/Matcher.tla defines well-formedness, matching and ambiguity; Matcher_MC model-checks that the closed "
                  "ambiguity formula is 'some byte string matches both' on all 2-bit patterns; every set of <= 3 patterns "
                  "from a small alphabet (plus ill-formed ones) is given to the real NewMatcher and every byte string of "
                  "length 0-3 over the alphabet to Match; TLC validates acceptance and every match result.")
    level_note = "Trusted: TLC, Json module. Patterns use bits {0,1} (and one high bit) of each byte; lengths 1-2 (3 sampled)."
    technique = "TLA+ specification (Matcher) model-checked with TLC; exhaustive small-scope inputs; TLC trace validation"
    trusted = ["Go harness: pattern construction", "TLC, CommunityModules Json"]
    rule = ("patterns: long patterns of 8, 9, 12 and 17 bytes differing in the first / a middle / the last byte (full and "
            "sparse masks, duplicates in every position of the list); lengths 1-2, bytes and masks over {0,1,2,3} per byte "
            "(so strings over 4 symbols decide ambiguity), plus "
            "ill-formed patterns (empty, length mismatch, last mask byte 0), bytes with bits outside the mask, a high-bit "
            "variant and sampled length-3 patterns; all sets of <= 2 patterns and sampled sets of 3; strings: all of "
            "length 0-2 over {0,1,2,3} plus sampled length 3 and high-bit strings; NewMatcher must succeed iff "
            "Matcher!Buildable, and then Match(s) = the unique matching pattern or none; non-trivial = set with >= 2 "
            "patterns; distinct by pattern set")
    assumptions = ["small alphabet: 2 low bits per byte + one high-bit variant"]

    def nontrivial_key(self, group, events):
        c = group[0]
        if len(c["pats"]) < 2:
            return None
        return repr(c["pats"])

    def groups(self, tier, seed):
        rng = random.Random(seed * 256203221 + 19)
        B = [0, 1, 2, 3]
        pats = []
        for n in (1, 2):
            for b in itertools.product(B, repeat=n):
                for m in itertools.product(B, repeat=n):
                    pats.append({"bytes": list(b), "mask": list(m)})
        wf = [p for p in pats if p["mask"][-1] != 0]
        ill = [{"bytes": [], "mask": []}, {"bytes": [1], "mask": [1, 1]}, {"bytes": [1, 2], "mask": [3]}, {"bytes": [1], "mask": [0]},
               {"bytes": [1, 1], "mask": [3, 0]}]
        hi = [{"bytes": [0x80], "mask": [0x80]}, {"bytes": [0x81], "mask": [0x83]}, {"bytes": [0, 0, 1], "mask": [0, 0, 1]},
              {"bytes": [1, 0, 2], "mask": [1, 0, 3]}, {"bytes": [0x33, 0x00, 0x00, 0x02], "mask": [0x7f, 0x70, 0x00, 0xfe]}]
        strs = [[]] + [list(s) for n in (1, 2) for s in itertools.product(B, repeat=n)]
        strs += [[rng.choice(B + [0x80, 0x83]) for _ in range(rng.choice([3, 4]))] for _ in range(12)]
        gs, k = [], 0

        def add(ps):
            nonlocal k
            gs.append([{"case": "m%d" % k, "pats": ps, "strs": strs}])
            k += 1
        add([])
        for p in wf + ill + hi:
            add([p])
        pool = wf + hi
        pairs = [(p, q) for p in pool for q in pool]
        if tier == "quick":
            pairs = rng.sample(pairs, 2500)
        for p, q in pairs:
            add([p, q])
        for p in ill:
            for q in rng.sample(wf, 6):
                add([q, p])
        for _ in range(1500 if tier == "quick" else 30000):
            add([rng.choice(pool) for _ in range(3)])
        # long patterns (more than 8 bytes: whatever is compared must be compared over the whole length), differing in
        # the first, a middle or the last byte; identical patterns in every position of the list
        for n in (8, 9, 12, 17):
            tail = [(7 * i + 3) % 251 for i in range(n)]
            variants = []
            for pos in (0, n // 2, n - 1):
                for d in (1, 2, 0x80):
                    v = list(tail)
                    v[pos] = (v[pos] + d) % 256
                    variants.append(v)
            full = [255] * n
            partial = [255] + [0] * (n - 2) + [255]
            for mask in (full, partial):
                sets = [[tail, variants[0], variants[1]], [variants[0], tail, list(variants[0])], [tail, list(tail), variants[3]],
                        [variants[2], variants[5], variants[8]], [variants[0], variants[3], variants[6], tail]]
                for ps in sets:
                    for perm in itertools.permutations(range(len(ps))) if len(ps) <= 3 else [tuple(range(len(ps)))]:
                        pp = [{"bytes": ps[i], "mask": mask} for i in perm]
                        ss = [ps[i] for i in range(len(ps))] + [ps[0] + [1, 2], ps[0][:-1], [0] * n]
                        gs.append([{"case": "m%d" % k, "pats": pp, "strs": ss}])
                        k += 1
        return gs
