"""C09 C10 C12 C13: expression-IR transformations judged by ExprIR!Eval."""
import random
from ..runner import Check
from ..gen_expr import Table, ExprGen, make_envs, edge_bytes, OPS


def case(cid, op, t, root, envs, **kw):
    c = {"case": cid, "op": op, "nodes": t.nodes, "root": root, "envs": envs}
    c.update(kw)
    return c


def has_kind(t, kind):
    return any(n["k"] == kind for n in t.nodes)


class IRCheck(Check):
    family = "ir"
    module = "TraceIR"
    trusted = ["Go harness: expression (de)serialisation into hash-consed node tables",
               "TLC, CommunityModules Json"]
    mc = [("BV_MC", "BV_MC")]

    def nontrivial_key(self, group, events):
        e = events[0]
        if e["panic"]:
            return None
        # non-trivial: the transformation produced something different from its input
        if e["op"] in ("fold", "purge", "setwidth") and e["out"] == e["inp"]:
            return None
        if e["op"] == "poss" and len(e["outs"]) < 2:
            return None
        return repr((e["op"], e["nodes"], e["inp"], e.get("w")))


def random_tables(rng, n, depth_choices, **gk):
    for i in range(n):
        t = Table()
        g = ExprGen(rng, **gk)
        root = g.gen(t, rng.choice(depth_choices))
        yield i, t, root


class C09(IRCheck):
    pid = "C09"
    rule = ("cases: seeded random expression DAGs (all operators, conditionals, loads, width gadgets, widths "
            "1..255 with mixed operand widths) plus targeted shapes (all-constant trees, constant conditions, "
            "folded/truncated load addresses); each evaluated under 6 environments by ExprIR!Eval; "
            "non-trivial = folding changed the expression; distinct by (input table, root)")
    assumptions = ["values sampled: 6 environments per expression (all-zero, all-ones, 4 edge/random)",
                   "memory is a total function of the address (seeded default bytes)"]

    def groups(self, tier, seed):
        rng = random.Random(seed * 7919 + 9)
        n = 900 if tier == "quick" else 12000
        gs = []
        for i, t, root in random_tables(rng, n, [1, 2, 3, 3, 4, 5]):
            envs = make_envs(rng, t.regs(), t.mems(), 6)
            gs.append([case("r%d" % i, "fold", t, root, envs)])
        for i, t, root in random_tables(rng, n // 6, [2, 3, 4], widths=(1, 2, 3, 5, 9, 16, 32)):
            envs = make_envs(rng, t.regs(), t.mems(), 3, regw=40)
            gs.append([case("w%d" % i, "fold", t, root, envs)])
        for i, t, root in random_tables(rng, n // 60, [1, 2], widths=(1, 8, 64, 255), p_const=0.7):
            envs = make_envs(rng, t.regs(), t.mems(), 2, regw=255)
            gs.append([case("x%d" % i, "fold", t, root, envs)])
        # all-constant trees (must fold to one constant)
        for i, t, root in random_tables(rng, n // 4, [1, 2, 3, 4], p_const=1.0, p_mem=0.0):
            gs.append([case("k%d" % i, "fold", t, root, make_envs(rng, t.regs(), t.mems(), 1))])
        # conditionals whose condition folds, with branches of other widths
        for i in range(n // 6):
            t = Table()
            g = ExprGen(rng)
            cw, bw, ow = g.w(), g.w(), g.w()
            a, b = t.const(edge_bytes(rng, cw)), t.const(edge_bytes(rng, g.w()))
            tr, fa = g.gen(t, 2), g.gen(t, 2)
            root = t.less(a, b, tr, fa, ow)
            if rng.random() < 0.5:
                root = t.bin(rng.choice(OPS), root, g.gen(t, 1), g.w())
            gs.append([case("c%d" % i, "fold", t, root, make_envs(rng, t.regs(), t.mems(), 4))])
        # loads whose address is computed, gadget-wrapped, truncated or extended
        for i in range(n // 6):
            t = Table()
            g = ExprGen(rng, p_mem=0.0)
            addr = g.gen(t, 2)
            for _ in range(rng.randrange(3)):
                addr = t.wg(addr, g.w())
            root = t.mem(rng.choice(["m1", "m2"]), addr, g.w())
            if rng.random() < 0.5:
                root = t.bin(rng.choice(OPS), root, g.gen(t, 1), g.w())
            gs.append([case("m%d" % i, "fold", t, root, make_envs(rng, t.regs(), t.mems(), 4))])
        return gs
