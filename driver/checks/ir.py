"""C09 C10 C12 C13: expression-IR transformations judged by ExprIR!Eval."""
import random
from ..runner import Check
from ..gen_expr import Table, ExprGen, make_envs, edge_bytes, OPS


def case(cid, op, t, root, envs, **kw):
    c = {"case": cid, "op": op, "nodes": t.nodes, "root": root, "envs": envs}
    c.update(kw)
    return c


def has_kind(t, kind):
    return any(n["k"] == kind for n in t.nodes)


class IRCheck(Check):
    family = "ir"
    module = "TraceIR"
    trusted = ["Go harness: expression (de)serialisation into hash-consed node tables",
               "TLC, CommunityModules Json"]
    mc = [("BV_MC", "BV_MC")]

    def nontrivial_key(self, group, events):
        e = events[0]
        if e["panic"]:
            return None
        # non-trivial: the transformation produced something different from its input
        if e["op"] in ("fold", "purge", "setwidth") and e["out"] == e["inp"]:
            return None
        if e["op"] == "poss" and len(e["outs"]) < 2:
            return None
        return repr((e["op"], e["nodes"], e["inp"], e.get("w")))


def random_tables(rng, n, depth_choices, **gk):
    for i in range(n):
        t = Table(tails=rng if i % 2 else None)
        g = ExprGen(rng, **gk)
        root = g.gen(t, rng.choice(depth_choices))
        yield i, t, root


class C09(IRCheck):
    pid = "C09"
    rule = ("cases: seeded random expression DAGs (all operators, conditionals, loads, width gadgets, widths "
            "1..255 with mixed operand widths) plus targeted shapes (all-constant trees, constant conditions, "
            "folded/truncated load addresses); each evaluated under 6 environments by ExprIR!Eval; "
            "non-trivial = folding changed the expression; distinct by (input table, root)")
    assumptions = ["values sampled: 6 environments per expression (all-zero, all-ones, 4 edge/random)",
                   "memory is a total function of the address (seeded default bytes)"]

    def groups(self, tier, seed):
        rng = random.Random(seed * 7919 + 9)
        n = 900 if tier == "quick" else 12000
        gs = []
        for i, t, root in random_tables(rng, n, [1, 2, 3, 3, 4, 5]):
            envs = make_envs(rng, t.regs(), t.mems(), 6)
            gs.append([case("r%d" % i, "fold", t, root, envs)])
        for i, t, root in random_tables(rng, n // 6, [2, 3, 4], widths=(1, 2, 3, 5, 9, 16, 32)):
            envs = make_envs(rng, t.regs(), t.mems(), 3, regw=40)
            gs.append([case("w%d" % i, "fold", t, root, envs)])
        for i, t, root in random_tables(rng, n // 60, [1, 2], widths=(1, 8, 64, 255), p_const=0.7):
            envs = make_envs(rng, t.regs(), t.mems(), 2, regw=255)
            gs.append([case("x%d" % i, "fold", t, root, envs)])
        gs += adapter_lookalikes(rng, "fold", False)
        # all-constant trees (must fold to one constant)
        for i, t, root in random_tables(rng, n // 4, [1, 2, 3, 4], p_const=1.0, p_mem=0.0):
            gs.append([case("k%d" % i, "fold", t, root, make_envs(rng, t.regs(), t.mems(), 1))])
        # conditionals whose condition folds, with branches of other widths
        for i in range(n // 6):
            t = Table()
            g = ExprGen(rng)
            cw, bw, ow = g.w(), g.w(), g.w()
            a, b = t.const(edge_bytes(rng, cw)), t.const(edge_bytes(rng, g.w()))
            tr, fa = g.gen(t, 2), g.gen(t, 2)
            root = t.less(a, b, tr, fa, ow)
            if rng.random() < 0.5:
                root = t.bin(rng.choice(OPS), root, g.gen(t, 1), g.w())
            gs.append([case("c%d" % i, "fold", t, root, make_envs(rng, t.regs(), t.mems(), 4))])
        # loads whose address is computed, gadget-wrapped, truncated or extended
        for i in range(n // 6):
            t = Table()
            g = ExprGen(rng, p_mem=0.0)
            addr = g.gen(t, 2)
            for _ in range(rng.randrange(3)):
                addr = t.wg(addr, g.w())
            root = t.mem(rng.choice(["m1", "m2"]), addr, g.w())
            if rng.random() < 0.5:
                root = t.bin(rng.choice(OPS), root, g.gen(t, 1), g.w())
            gs.append([case("m%d" % i, "fold", t, root, make_envs(rng, t.regs(), t.mems(), 4))])
        return gs


IR_LEVEL = ("Trace validation against the TLA+ reference semantics: every recorded call of the real transformation is "
            "judged by TLC against ExprIR!Eval / BV (an independent byte-wise evaluator, itself model-checked against "
            "integer arithmetic in BV_MC). Exhaustive over operators, node kinds and width relations at small scope; "
            "sampled over 64-bit-and-wider values (edge grids + seeded random).")
IR_NOTE = ("Trusted: TLC, the Json community module, the BV/ExprIR modules (BV_MC-checked), the harness's "
           "expression (de)serialiser. Values above one byte are sampled, not enumerated.")
for _c in (C09,):
    _c.level_text, _c.level_note = IR_LEVEL, IR_NOTE

EDGE_SHIFT = [0, 1, 7, 8, 9, 15, 16, 31, 32, 63, 64, 65, 127, 128, 255]


def cbytes(n, w):
    return [(n >> (8 * i)) & 255 for i in range(w)]


def edge_values(rng, w, k):
    """k interesting w-byte values (as byte lists): carries across every byte, sign boundaries, random"""
    full = (1 << (8 * w)) - 1
    vs = [0, 1, 2, full, full - 1, 1 << (8 * w - 1), (1 << (8 * w - 1)) - 1, 0xFF, 0x100 & full, 0x80,
          full // 3, full // 255]
    out = [cbytes(v & full, w) for v in vs]
    while len(out) < k + len(vs):
        out.append(edge_bytes(rng, w))
    rng.shuffle(out)
    return out[:k]


class C10(IRCheck):
    pid = "C10"
    level_text, level_note = IR_LEVEL, IR_NOTE
    rule = ("cases: one operation (Add Lsh Rsh Mul Div Nand, unsigned less) on two constants; operation widths "
            "1,2,3,4,8,16,32,64,255 x operand widths shorter/equal/longer x edge-value grid (carries across all bytes, "
            "sign boundaries, shift amounts around 8w, divisors 0/1/max/truncated-to-zero) + seeded random; exhaustive "
            "over all 256x256 one-byte operand pairs per operator at operation width 1 (table events); expected value "
            "from BV; operands made by narrowing a wider constant (live bytes behind them in the backing array) at "
            "operation widths 2,3,4,8,16; non-trivial = operands not both zero; distinct by (op, widths, operand bytes)")
    assumptions = ["operand values above one byte are sampled (edge grid + seeded random), not enumerated"]
    exhaustive_part = "all one-byte operand pairs x 7 operators at operation width 1"

    def nontrivial_key(self, group, events):
        e = events[0]
        if e["panic"]:
            return None
        if e["op"] == "optable":
            return repr((e["o"], e["w"], e["x"]))
        cs = [n for n in e["nodes"] if n["k"] == "c"]
        if all(not any(c["b"]) for c in cs):
            return None
        return repr((e["nodes"], e["inp"]))

    def groups(self, tier, seed):
        rng = random.Random(seed * 104729 + 10)
        gs = []
        env = [{"regs": {}, "mem": {}}]
        nval = 3 if tier == "quick" else 7
        wops = [1, 2, 3, 4, 8, 16, 32, 64, 255]
        k = 0
        for w in wops:
            for (w1, w2) in {(w, w), (max(1, w // 2), w), (w, max(1, w // 2)), (min(255, w + 1), w), (w, min(255, 2 * w)),
                             (1, w), (w, 1), (min(255, w + 1), min(255, w + 1)), (min(255, 2 * w), min(255, 2 * w))}:
                for op in OPS + [0]:
                    if op == 5 and w > 64:
                        reps = 1 if tier == "quick" else 2
                    else:
                        reps = nval
                    for _ in range(reps):
                        t = Table()
                        a = edge_values(rng, w1, 1)[0]
                        b = edge_values(rng, w2, 1)[0]
                        if op in (2, 3) and rng.random() < 0.8:
                            s = rng.choice(EDGE_SHIFT + [8 * w - 1, 8 * w, 8 * w + 1])
                            b = cbytes(s, w2) if rng.random() < 0.8 else cbytes(s + (1 << (8 * min(w, w2))), w2 + 1)[:w2]
                        if op == 5 and rng.random() < 0.3:
                            # divisors 0, 1, max, and one that only becomes zero by truncation
                            b = rng.choice([cbytes(0, w2), cbytes(1, w2), [255] * w2,
                                            ([0] * min(w, w2) + [1] * w2)[:w2]])
                        ia, ib = t.const(a), t.const(b)
                        if op == 0:
                            root = t.less(ia, ib, t.const([1]), t.const([2]), w)
                        else:
                            root = t.bin(op, ia, ib, w)
                        gs.append([case("g%d" % k, "fold", t, root, env)])
                        k += 1
        # exhaustive one-byte tables: operator o, operation width 1, x fixed, all 256 y
        xs = range(256) if tier == "thorough" else sorted(set(rng.sample(range(256), 24) + [0, 1, 127, 128, 255]))
        for op in OPS + [0]:
            for x in xs:
                gs.append([{"case": "t%d_%d" % (op, x), "op": "optable", "o": op, "w": 1, "x": [x], "nodes": [], "root": 0,
                            "envs": env}])
        # results around the machine-word boundaries: operands whose product / sum / quotient crosses 2^32, 2^64, 2^128
        # (bit lengths adding up to the boundary and one more or less), at operation widths on both sides of 8 bytes
        def nbytes(v, w):
            return [(v >> (8 * i)) & 255 for i in range(w)]
        for w in (4, 8, 9, 12, 16, 24, 32):
            for total in (31, 32, 33, 63, 64, 65, 66, 127, 128, 129):
                if total > 8 * w + 8:
                    continue
                for la in sorted({1, 2, total // 2, total - 33, total - 32, total - 2, total - 1}):
                    lb = total - la
                    if la < 1 or lb < 1 or la > 8 * w or lb > 8 * w:
                        continue
                    for (x, y) in (((1 << la) - 1, (1 << lb) - 1), (1 << (la - 1), 1 << (lb - 1)), ((1 << la) - 1, (1 << (lb - 1)) + 1),
                                   (3 << max(0, la - 2), (1 << lb) - 1)):
                        for op in (4, 1, 5):
                            t = Table()
                            wa, wb = max(1, (la + 7) // 8), max(1, (lb + 7) // 8)
                            ia, ib = t.const(nbytes(x, rng.choice([wa, w]))), t.const(nbytes(y, rng.choice([wb, w])))
                            gs.append([case("g%d" % k, "fold", t, t.bin(op, ia, ib, w), env)])
                            k += 1
        # operands made by narrowing a wider constant (Const.WithWidth keeps the backing array: the lifter's address
        # constants, register and memory values are made this way): the dropped bytes must stay dropped
        for w in (2, 3, 4, 8, 16):
            for wa in sorted({1, max(1, w // 2), w - 1}):
                for op in OPS + [0]:
                    for tail in ([0xAA] * (w - wa), [0xFF] * w, [1]):
                        t = Table()
                        a = [rng.randrange(1, 256) for _ in range(wa)]
                        ia = t.const(a, tail=tail)
                        ib = t.const(rng.choice([[0] * w, [1], [8 * wa], [3] + [0] * (w - 1), nbytes(rng.getrandbits(8 * w), w)]),
                                     tail=rng.choice([None, [0xEE] * 3]))
                        x, y = (ia, ib) if rng.random() < 0.6 else (ib, ia)
                        root = t.less(x, y, t.const([1], tail=[7]), t.const([2]), w) if op == 0 else t.bin(op, x, y, w)
                        gs.append([case("g%d" % k, "fold", t, root, env)])
                        k += 1
        self.exhaustive = tier == "thorough"
        return gs


GADGETS2 = ["Sub", "Mod", "SignedMul", "SignedDiv", "SignedMod", "RshA", "BitAnd", "BitOr", "BitXor"]
GADGETS1 = ["Negate", "Abs", "BitNot", "Bool", "Not", "IntNegative", "WidthGadget"]
GADGETS4 = ["Eq", "Lts", "Leu", "Les"]


class C11(IRCheck):
    pid = "C11"
    level_text, level_note = IR_LEVEL, IR_NOTE
    rule = ("cases: each of the 24 exported gadgets at widths 1,2,4,8,16 (SignedMul up to 8), built (R1) on constant "
            "operands and folded by ConstFold and (R2) on register operands and evaluated by ExprIR!Eval; operand values "
            "from the edge grid (0, +-1, MIN, MAX, sign boundary, carries) x seeded random, all value pairs from a "
            "16-value grid at width 1; every two-operand gadget against the special constants 0, 1, 2, all ones and a power "
            "of two in every byte (both positions, other operand with all bytes non-zero); expected from Gadgets!Ref (written from the doc-comments); non-trivial = not all "
            "operands zero; distinct by (gadget, width, operand values, route)")
    assumptions = ["operands have the gadget's documented width (mixed widths only where the documentation defines them)",
                   "SignExtend is exercised only with a sign bit inside the result width (documented as undefined otherwise)",
                   "values above one byte are sampled"]

    def nontrivial_key(self, group, events):
        e = events[0]
        if e["panic"]:
            return None
        return repr((e["g"], e["w"], e["bit"], [n for n in e["nodes"][:6]], e["envs"]))

    def groups(self, tier, seed):
        rng = random.Random(seed * 15485863 + 11)
        gs = []
        reps = 2 if tier == "quick" else 10
        k = [0]

        def add(g, w, vals, bit=0, widths=None):
            """vals: operand byte lists. Emits R1 (constants) and R2 (registers)."""
            for route in ("c", "r"):
                t = Table()
                args, regs = [], {}
                for i, v in enumerate(vals):
                    if route == "c":
                        args.append(t.const(v))
                    else:
                        args.append(t.reg("a%d" % i, len(v)))
                        regs["a%d" % i] = v + [rng.choice([0, 255, 0x5A])] * 3   # junk above the register width
                env = [{"regs": regs, "mem": {}}]
                c = {"case": "%s%d" % (route, k[0]), "op": "gadget", "g": g, "w": w, "bit": bit, "nodes": t.nodes,
                     "root": 0, "args": args, "envs": env}
                gs.append([c])
                k[0] += 1

        widths = [1, 2, 4, 8, 16]
        for w in widths:
            vs = edge_values(rng, w, 6 + reps)
            for g in GADGETS2:
                if g == "SignedMul" and w > 8:
                    continue
                pairs = [(rng.choice(vs), rng.choice(vs)) for _ in range(reps * 6)]
                if g in ("SignedDiv", "SignedMod", "Mod"):
                    mn = cbytes(1 << (8 * w - 1), w)
                    pairs += [(mn, [255] * w), (mn, cbytes(1, w)), (vs[0], [0] * w), ([255] * w, [255] * w),
                              (cbytes(7, w), cbytes((1 << (8 * w)) - 2, w)), (cbytes((1 << (8 * w)) - 7, w), cbytes(2, w)),
                              (cbytes((1 << (8 * w)) - 7, w), cbytes((1 << (8 * w)) - 2, w))]
                # special constants (0, 1, 2, a power of two in every byte, all ones) against a dividend / operand whose
                # every byte is non-zero and different - in both positions: shortcuts for "easy" constants
                full = [(0xA1 + 0x11 * i) % 256 or 1 for i in range(w)]
                for sp in [0, 1, 2, (1 << (8 * w)) - 1] + [1 << (8 * i + rng.choice([0, 7])) for i in range(w)]:
                    pairs += [(full, cbytes(sp, w)), (cbytes(sp, w), full)]
                if g == "RshA":
                    pairs = [(a, cbytes(rng.choice([0, 1, 7, 8, 8 * w - 1, 8 * w, 8 * w + 1, 255]) % (1 << 8 * w), w))
                             for a, _ in pairs]
                for a, b in pairs:
                    add(g, w, [a, b])
                    if g in ("Sub", "BitAnd", "BitOr", "BitXor") and rng.random() < 0.5:
                        # documented mixed widths: operands are zero-extended / truncated to w
                        w1 = rng.choice([1, 2, 4, 8, 16])
                        add(g, w, [edge_bytes(rng, w1), b])
            for g in GADGETS1:
                for a in vs[:reps * 3]:
                    if g in ("Abs",):
                        add(g, w, [a])
                    else:
                        w1 = rng.choice([w, w, 1, 2, 4, 8, 16]) if g != "Negate" else w
                        add(g, w, [edge_bytes(rng, w1) if w1 != w else a])
            add("Ones", w, [])
            for g in GADGETS4:
                for _ in range(reps * 4):
                    a, b = rng.choice(vs), rng.choice(vs)
                    if rng.random() < 0.3:
                        b = a
                    tv, fv = edge_bytes(rng, rng.choice([1, w, 2 * w])), edge_bytes(rng, rng.choice([1, w, 2 * w]))
                    add(g, w, [a, b, tv, fv])
            for _ in range(reps * 3):
                c = rng.choice([[0] * w, cbytes(1, w), [0] * (w - 1) + [128], edge_bytes(rng, w),
                                edge_bytes(rng, max(1, w // 2))])
                add("BoolCond", w, [c, edge_bytes(rng, rng.choice([1, w, 2 * w])), edge_bytes(rng, rng.choice([1, w]))])
            for _ in range(reps * 3):
                sb = rng.choice([0, 1, 6, 7, 8, 8 * w - 2, 8 * w - 1, rng.randrange(8 * w)]) % (8 * w)
                add("SignExtend", w, [edge_bytes(rng, w), cbytes(sb, rng.choice([1, 2]))])
            for _ in range(reps * 3):
                bit = rng.choice([0, 1, 7, 8, 9, 8 * w - 1, 8 * w, 63, 64, 65, rng.randrange(8 * w + 1)])
                bit = min(bit, 8 * w)
                add("MaskBits", w, [edge_bytes(rng, rng.choice([w, 1, 2 * w]))], bit=bit)
        # width 1: all pairs over a 16-value grid for the two-operand and comparison gadgets
        grid = [0, 1, 2, 3, 7, 8, 0x7E, 0x7F, 0x80, 0x81, 0xAA, 0xF0, 0xFD, 0xFE, 0xFF, 0x55]
        if tier == "quick":
            grid = grid[::2] + [0xFF]
        for g in GADGETS2:
            for a in grid:
                for b in grid:
                    add(g, 1, [[a], [b]])
        for g in ("Lts", "Les", "Leu", "Eq"):
            for a in grid:
                for b in grid:
                    add(g, 1, [[a], [b], [1], [2]])
        return gs


def stack_gadgets(rng, t, g, e, n):
    for _ in range(n):
        e = t.wg(e, g.w())
    return e


class WGGen(ExprGen):
    """ExprGen that wraps sub-expressions in stacked width gadgets in every context."""

    def gen(self, t, depth):
        e = ExprGen.gen(self, t, depth)
        if self.rng.random() < 0.35:
            e = stack_gadgets(self.rng, t, self, e, self.rng.choice([1, 1, 2, 3]))
        return e


def adapter_lookalikes(rng, op, with_setwidth):
    """additions that only LOOK like a width adapter: x + C with a non-zero C whose low byte(s) - up to the whole low
    machine word - are zero, in every operand order, width relation and context in which adapters are pruned"""
    gs, k = [], 0
    for wx in (1, 2, 4, 8, 16):
        for wc in (1, 2, 4, 8, 16):
            for cval in (0x100, 0x1000, 0x8000, 0x10000, 0xFF00, 0x100000000, 0, 1 << 64, 1 << 72, ((1 << 128) - 1) ^ ((1 << 64) - 1)):
                if cval >= 1 << (8 * wc) or (cval == 0 and wc != 1) or (cval >= 1 << 64 and wx < 8):
                    continue
                for wadd in (1, 2, 4, 8, 16):
                    if wadd == 16 and cval < 1 << 32 and wx != 16:
                        continue
                    t = Table()
                    x = t.reg("r1", wx) if (wx + wc + wadd) % 3 else t.bin(5, t.reg("r1", wx), t.reg("r2", wx), wx)
                    c = t.constn(cval, wc)
                    for first in (False, True):
                        a = t.bin(1, c, x, wadd) if first else t.bin(1, x, c, wadd)
                        for ctx in ("top", "mem", "bin", "less", "nest", "shift"):
                            if ctx == "top":
                                root = a
                            elif ctx == "mem":
                                root = t.mem("m1", a, 2)
                            elif ctx == "bin":
                                root = t.bin(rng.choice(OPS), a, t.reg("r2", wadd), wadd)
                            elif ctx == "less":
                                root = t.less(a, t.reg("r2", wadd), t.const([1]), a, wadd)
                            elif ctx == "shift":
                                root = t.bin(1, t.bin(3, a, t.constn(8 * min(wadd, 8), 1), wadd), t.constn(1, 1), min(wadd, 8))
                            else:
                                root = t.wg(t.bin(4, a, t.constn(3, 1), wadd), rng.choice([1, 2, 8]))
                            envs = make_envs(rng, t.regs(), t.mems(), 4, regw=40)
                            gs.append([case("z%d" % k, op, t, root, envs)])
                            if with_setwidth and ctx in ("top", "bin"):
                                gs.append([case("y%d" % k, "setwidth", t, root, envs, w=rng.choice([1, 2, 4, 8, 16]))])
                            k += 1
    return gs


class C12(IRCheck):
    pid = "C12"
    level_text, level_note = IR_LEVEL, IR_NOTE
    rule = ("cases: SetWidth(e, w) for target widths 1,2,3,4,8,16 and PurgeWidthGadgets(e) on seeded random DAGs with "
            "stacked width gadgets (growing, shrinking, shrink-then-grow) in every context (binary operand, condition, "
            "branch, load address); expected Adapt(Eval(e), w) resp. Eval(e) under 5 environments; non-trivial = the "
            "output differs structurally from the input; distinct by (op, input DAG, target width)")
    assumptions = ["5 environments per expression", "memory is a total function of the address"]

    def groups(self, tier, seed):
        rng = random.Random(seed * 32452843 + 12)
        n = 500 if tier == "quick" else 8000
        gs = []
        for i in range(n):
            t = Table(tails=rng if i % 2 else None)
            g = WGGen(rng, widths=(1, 2, 3, 4, 8) if i % 3 else (1, 2, 4, 8, 16))
            root = g.gen(t, rng.choice([1, 2, 3, 3, 4]))
            envs = make_envs(rng, t.regs(), t.mems(), 5)
            if i % 2:
                gs.append([case("p%d" % i, "purge", t, root, envs)])
            else:
                gs.append([case("s%d" % i, "setwidth", t, root, envs, w=rng.choice([1, 2, 3, 4, 8, 16]))])
        # targeted: gadget chains on a load address / operand with all width relations
        k = 0
        for wa in (1, 2, 4, 8):
            for wg1 in (1, 2, 4, 8):
                for wg2 in (0, 1, 4, 8):
                    for wl in (1, 2, 8):
                        t = Table()
                        a = t.reg("r1", wa)
                        a = t.wg(a, wg1)
                        if wg2:
                            a = t.wg(a, wg2)
                        for ctx in ("mem", "bin", "less", "lessc", "lessb", "shift"):
                            if ctx == "mem":
                                root = t.mem("m1", a, wl)
                            elif ctx == "bin":
                                root = t.bin(rng.choice(OPS), a, t.reg("r2", 4), wl)
                            elif ctx == "less":
                                root = t.less(a, t.reg("r2", 2), a, t.const([5]), wl)
                            elif ctx == "lessc":     # adapter on a compared operand, small constant on the other side
                                root = t.less(a, t.constn(0x100 % (1 << (8 * min(wg1, 2))) or 1, min(wg1, 2)), t.const([1]), t.const([0]), wl)
                            elif ctx == "lessb":     # adapter on the second compared operand and on a branch
                                root = t.less(t.constn(3, 1), a, t.reg("r2", 2), a, wl)
                            else:                    # adapter on a shift amount
                                root = t.bin(rng.choice([2, 3]), t.reg("r2", 8), a, wl)
                            envs = make_envs(rng, t.regs(), t.mems(), 6)
                            gs.append([case("a%d" % k, "purge", t, root, envs)])
                            gs.append([case("b%d" % k, "setwidth", t, root, envs, w=rng.choice([1, 2, 3, 4, 8, 16]))])
                            k += 1
        # adapters over value-limiting operations: a narrowing adapter on top of a shift (right / left, by every constant
        # amount, by a register) or a division, consumed by something wider - "the operand cannot have those bits anyway"
        # reasoning must be exact in bits
        for wa in (2, 4, 8):
            for wgd in (1, 2, 4):
                if wgd >= wa:
                    continue
                for sh in sorted(set(range(0, 8 * wa + 1, 1 if wa <= 4 else 3)) | {8 * (wa - wgd) - 1, 8 * (wa - wgd), 8 * (wa - wgd) + 1}):
                    for op in (3, 2, 5):
                        t = Table()
                        x = t.reg("r1", wa)
                        amount = t.constn(sh if op != 5 else max(1, sh), rng.choice([1, 2, wa]))
                        inner = t.bin(op, x, amount, wa)
                        a = t.wg(inner, wgd)
                        wc = rng.choice([w for w in (2, 4, 8) if w > wgd])
                        ctx = rng.choice(["bin", "less", "nest", "binr"])
                        if ctx == "bin":
                            root = t.bin(1, a, t.reg("r2", wc), wc)
                        elif ctx == "binr":
                            root = t.bin(rng.choice([1, 4, 6]), t.reg("r2", wc), a, wc)
                        elif ctx == "less":
                            root = t.less(a, t.reg("r2", wc), a, t.const([1]), wc)
                        else:
                            root = t.bin(1, t.wg(a, wc), t.constn(1, 1), wc)
                        envs = make_envs(rng, t.regs(), t.mems(), 5)
                        gs.append([case("v%d" % k, "purge", t, root, envs)])
                        k += 1
        gs += adapter_lookalikes(rng, "purge", True)
        return gs


class C13(IRCheck):
    pid = "C13"
    level_text, level_note = IR_LEVEL, IR_NOTE
    rule = ("cases: Possibilities(e) on seeded random DAGs with up to 4 (nested) conditionals, conditionals under "
            "binary operands, in load addresses, in conditions and in branches, plus operations whose two operands are "
            "conditionals on the same comparison with further conditionals in their branches; under 6 environments the value of e "
            "must equal the value of one alternative, every alternative has e's width and no conditional; "
            "non-trivial = at least two alternatives; distinct by input DAG")
    assumptions = ["6 environments per expression", "memory is a total function of the address"]

    def groups(self, tier, seed):
        rng = random.Random(seed * 49979687 + 13)
        n = 700 if tier == "quick" else 10000
        gs = []
        i = 0
        tries = 0
        while len(gs) < n and tries < 50 * n:
            tries += 1
            t = Table(tails=rng if tries % 2 else None)
            g = ExprGen(rng, p_less=rng.choice([0.25, 0.4, 0.5]))
            root = g.gen(t, rng.choice([1, 2, 3, 3, 4]))
            nless = sum(1 for x in t.nodes if x["k"] == "l")
            if nless > 4:
                continue
            if nless == 0 and rng.random() < 0.9:
                continue
            envs = make_envs(rng, t.regs(), t.mems(), 6)
            gs.append([case("q%d" % i, "poss", t, root, envs)])
            i += 1
        # correlated conditionals: both operands of an operation are conditionals on the SAME comparison (or on one that
        # only looks the same) whose branches contain further, different conditionals - the alternatives must still
        # cover every combination that can occur (thresholds in the middle of the value range, so that random
        # valuations take every combination of branches)
        for j in range(150 if tier == "quick" else 2000):
            t = Table()
            w = rng.choice([1, 1, 2, 4])
            mid = t.const([0] * (w - 1) + [0x80])
            r = [t.reg("r%d" % q, w) for q in range(1, 6)]

            def leaf():
                return t.constn(rng.randrange(1, 1 << (8 * w)), w) if rng.random() < 0.7 else rng.choice(r)

            def branchy(depth=0):
                if depth < 2 and rng.random() < 0.65:
                    return t.less(rng.choice(r[1:]), mid, branchy(depth + 1), leaf(), w)
                return leaf()
            a, b = r[0], mid
            e1 = t.less(a, b, branchy(), branchy(), w)
            a2, b2 = (a, b) if rng.random() < 0.7 else rng.choice([(b, a), (r[1], mid), (a, t.const([0] * (w - 1) + [0x40]))])
            e2 = t.less(a2, b2, branchy(), branchy(), w)
            root = t.bin(rng.choice([1, 2, 5, 6]), e1, e2, w)
            if sum(1 for x in t.nodes if x["k"] == "l") > 6:
                continue
            envs = make_envs(rng, t.regs(), t.mems(), 10)
            gs.append([case("q%d" % i, "poss", t, root, envs)])
            i += 1
        return gs


def mutate_point(rng, t, i):
    """a copy of node i of table t with one point mutation somewhere in its tree; returns new index"""
    n = dict(t.nodes[i - 1])
    kids = n.get("a", [])
    if kids and rng.random() < 0.6:
        a = list(kids)
        k = rng.randrange(len(a))
        a[k] = mutate_point(rng, t, a[k])
        n["a"] = a
        return t._intern(n)
    c = rng.random()
    if n["k"] == "c" and c < 0.5:
        b = list(n["b"])
        k = rng.randrange(len(b))
        b[k] = (b[k] + 1 + rng.randrange(255)) % 256
        n["b"] = b
    elif n["k"] in ("r", "m") and c < 0.5:
        n["n"] = n["n"] + "x"
    elif n["k"] == "b" and c < 0.4:
        n["o"] = n["o"] % 6 + 1
    elif n["k"] in ("b", "l") and c < 0.7 and n["a"][0] != n["a"][1]:
        a = list(n["a"])
        a[0], a[1] = a[1], a[0]
        n["a"] = a
    else:
        n["w"] = n["w"] % 255 + 1
        if n["k"] == "c":
            n["b"] = (list(n["b"]) + [0] * 255)[:n["w"]]
    return t._intern(n)


class C28(Check):
    pid = "C28"
    family = "struct"
    module = "TraceStruct"
    mc = [("BV_MC", "BV_MC")]
    level_text = ("Trace validation against the structural definitions of spec/ExprIR.tla and TraceStruct (tree of a node, "
                  "pre-order listing, bottom-up substitution): every recorded call of Equal, FindAll, ReplaceAll, Exprs and "
                  "EffectApply is judged by TLC on hash-consed expression tables (structural equality = same index).")
    level_note = ("Trusted: TLC, Json module, the harness's hash-consing serialiser and its six named replacement functions "
                  "(mirrored in TraceStruct!Repl). Seeded random DAGs of depth <= 5 with every node kind; single-point mutations.")
    technique = "TLA+ structural specification as oracle; TLC trace validation of recorded calls"
    trusted = ["Go harness: hash-consing serialiser, named replacement functions", "TLC, CommunityModules Json"]
    rule = ("cases on seeded random DAGs (all node kinds, widths 1-8, shared subtrees): Equal on (e, e), (e, independently "
            "rebuilt e), (e, every kind of single-point mutation of e: width, operator, key, constant byte, swapped "
            "children, at any depth) and unrelated pairs; FindAll for each of the 5 kinds (pre-order, with repetitions); "
            "ReplaceAll with 6 named functions (register -> constant, zero constant -> 9, Add -> Nand, load -> register, "
            "conditional -> its true branch, never-matching) compared with bottom-up substitution and 'same tree when "
            "nothing matches'; Exprs / EffectApply on register and memory effects; non-trivial = expression with >= 3 "
            "nodes; distinct by (op, table, operands)")
    assumptions = ["'the same tree' is observed structurally (the harness cannot observe pointer identity)"]

    def nontrivial_key(self, group, events):
        c = group[0]
        if len(c["nodes"]) < 3:
            return None
        return repr((c["op"], c["nodes"], c.get("a"), c.get("b"), c.get("kind"), c.get("eff"), c.get("effs")))

    def groups(self, tier, seed):
        rng = random.Random(seed * 217645199 + 28)
        n = 500 if tier == "quick" else 8000
        gs, k = [], 0

        def add(c):
            nonlocal k
            c["case"] = "s%d" % k
            c.setdefault("a", 0)
            c.setdefault("b", 0)
            c.setdefault("kind", "")
            k += 1
            gs.append([c])
        for i in range(n):
            t = Table()
            g = ExprGen(rng, widths=(1, 2, 4, 8), p_less=0.25, p_mem=0.15)
            a = g.gen(t, rng.choice([1, 2, 3, 3, 4, 5]))
            b = g.gen(t, rng.choice([0, 1, 2, 3]))
            m = mutate_point(rng, t, a)
            m2 = mutate_point(rng, t, m)
            add({"op": "equal", "nodes": t.nodes, "a": a, "b": a})
            add({"op": "equal", "nodes": t.nodes, "a": a, "b": m})
            add({"op": "equal", "nodes": t.nodes, "a": m, "b": m2})
            add({"op": "equal", "nodes": t.nodes, "a": a, "b": b})
            for kind in "crblm":
                add({"op": "find", "nodes": t.nodes, "a": a, "kind": kind})
            for name in ("r", "c", "b", "m", "l", "none"):
                add({"op": "replace", "nodes": t.nodes, "a": a, "kind": name})
            if i % 2:
                eff = {"e": "reg", "n": rng.choice(["x1", "x2"]), "w": rng.choice([1, 2, 4, 8]), "v": a, "a": 0}
            else:
                eff = {"e": "mem", "n": rng.choice(["m1", "m2"]), "w": rng.choice([1, 2, 4, 8]), "v": a, "a": b}
            add({"op": "exprs", "nodes": t.nodes, "eff": eff})
            add({"op": "effapply", "nodes": t.nodes, "eff": eff})
            # the operands of several effects at once: a long list, then shorter ones (results are kept by the harness and
            # re-read after every later call of the same process)
            eff2 = {"e": "reg", "n": "x3", "w": 4, "v": b, "a": 0}
            eff3 = {"e": "mem", "n": "m1", "w": 2, "v": b, "a": a}
            for effs in ([eff, eff2, eff3], [eff2], [eff3, eff], []):
                add({"op": "exprsmany", "nodes": t.nodes, "effs": effs})
        return gs

    def stateful(self):
        return True             # verdicts about results kept from earlier calls are reproduced with their process history


class C27(Check):
    pid = "C27"
    family = "const"
    module = "TraceConst"
    mc = [("BV_MC", "BV_MC")]
    exhaustive = True
    level_text = ("Trace validation against the encoding rules of TraceConst (two's-complement byte encodings over BV): every "
                  "recorded constructor / read-back call is judged by TLC; exhaustive over Go integer types x widths x the "
                  "boundary values of every width, and over all 8-bit values.")
    level_note = "Trusted: TLC, Json module, BV (BV_MC-checked), the harness's integer (de)serialisation."
    technique = "TLA+ encoding specification as oracle; exhaustive boundary inputs; TLC trace validation"
    trusted = ["Go harness: 8-byte integer transport", "TLC, CommunityModules Json"]
    rule = ("NewConstUint/NewConstInt/ConstFrom*: Go types u8..u64, i8..i64 x widths {1,2,3,4,5,7,8,9,16,31,32,33,64,128,255} x values: every "
            "boundary of every width inside the type's range (0, +-1, 2^(8k-1)-1, 2^(8k-1), 2^(8k)-1, 2^(8k), their "
            "negations, +-1 around) plus all 256 one-byte values and seeded random; ConstUint[T] read-back and WithWidth on "
            "constants of widths 1..16 with zero / non-zero upper bytes; NewConst aliasing (source slice overwritten after "
            "construction); non-trivial = non-zero value; distinct by (op, type, value, width)")
    assumptions = ["integers wider than 64 bits do not exist in the API"]

    def nontrivial_key(self, group, events):
        c = group[0]
        if not any(c.get("val") or []) and not any(c.get("b") or []):
            return None
        return repr((c["op"], c["t"], c.get("val"), c["w"], c.get("b")))

    def groups(self, tier, seed):
        rng = random.Random(seed * 236887699 + 27)
        gs, k = [], 0
        types = {"u8": (0, 255), "u16": (0, 65535), "u32": (0, 2 ** 32 - 1), "u64": (0, 2 ** 64 - 1),
                 "i8": (-128, 127), "i16": (-2 ** 15, 2 ** 15 - 1), "i32": (-2 ** 31, 2 ** 31 - 1), "i64": (-2 ** 63, 2 ** 63 - 1)}
        cand = set(range(-2, 3)) | set(range(120, 135)) | set(range(250, 260))
        for kb in range(1, 9):
            for base in (2 ** (8 * kb - 1), 2 ** (8 * kb)):
                for d in (-2, -1, 0, 1, 2):
                    cand.add(base + d)
                    cand.add(-(base + d))
        cand |= set(range(256)) | {-x for x in range(256)}
        widths = [1, 2, 3, 4, 5, 7, 8, 9, 16, 31, 32, 33, 64, 128, 255]       # 8 * w passes 256 at 32 bytes
        for t, (lo, hi) in types.items():
            vals = sorted(v for v in cand if lo <= v <= hi)
            vals += [rng.randrange(lo, hi + 1) for _ in range(20 if tier == "quick" else 300)]
            for v in vals:
                enc = [((v % (1 << 64)) >> (8 * i)) & 255 for i in range(8)]
                ws = widths if (tier == "thorough" or abs(v) > 300 or v in (0, 1, -1, 127, 128, 255, 256, -128, -129, 200)) else rng.sample(widths, 3)
                for w in ws:
                    gs.append([{"case": "n%d" % k, "op": "newuint" if t[0] == "u" else "newint", "t": t, "val": enc, "w": w, "b": []}])
                    k += 1
                gs.append([{"case": "f%d" % k, "op": "fromuint" if t[0] == "u" else "fromint", "t": t, "val": enc, "w": 0, "b": []}])
                k += 1
        # every 16-bit pattern read back (as the top bytes of constants of 2-4 bytes, into every unsigned type): nothing
        # about the byte VALUES may matter to where the most significant byte is found
        for v in range(1 << 16):
            if tier == "quick" and v % 3 and not (0x80 <= (v >> 8) <= 0xBF and (v & 255) >= 0xC2):
                continue
            pad = [[], [0x11], [0, 0]][v % 3]
            gs.append([{"case": "r%d" % k, "op": "readuint", "t": ["u8", "u16", "u32", "u64"][(v >> 4) % 4], "val": [], "w": 0,
                        "b": pad + [v & 255, v >> 8]}])
            k += 1
        for i in range(400 if tier == "quick" else 5000):
            w = rng.choice([1, 2, 3, 4, 7, 8, 9, 12, 16])
            b = edge_bytes(rng, w)
            if rng.random() < 0.5:      # zero upper part: fits some types
                z = rng.randrange(0, w + 1)
                b = b[:z] + [0] * (w - z)
            t = rng.choice(["u8", "u16", "u32", "u64"])
            gs.append([{"case": "r%d" % k, "op": "readuint", "t": t, "val": [], "w": 0, "b": b}])
            gs.append([{"case": "w%d" % k, "op": "withwidth", "t": "", "val": [], "w": rng.choice([1, 2, 3, 4, 8, 9, 16, 32]), "b": b}])
            src = edge_bytes(rng, rng.choice([1, 2, 4, 8, 16]))
            gs.append([{"case": "a%d" % k, "op": "alias", "t": "", "val": [], "w": rng.choice([len(src), max(1, len(src) // 2), len(src) + 3]), "b": src}])
            k += 1
        return gs
