"""C22 C23 C24 C29 C30 C31 C32: the console UI driven in process, judged by TraceUI (spec/UI.tla)."""
import random, itertools, re
from ..runner import Check
from .. import core
from ..gen_rv import r_type, i_type, s_type, b_type, u_type, j_type, word_bytes

UI_LEVEL = ("The UI model (spec/UI.tla: listing structure, cursor commands, rendering contract, memory-view rows, numeric "
            "literals, help wrapping) is the oracle; UI_MC model-checks the navigation machine; the harness feeds every input "
            "line to the real UI.processCommand (scripted line reader, captured stdout, panics caught per line), records the "
            "full projected state after every line and TLC validates each event against the model.")
UI_NOTE = ("Trusted: TLC, Json module, the harness facade (input scripting, stdout capture, tokenising rendered text on "
           "punctuation, literal substring test for 'find' patterns because TLC strings are opaque), verif-tagged read-only "
           "exports of unexported UI helpers.")

BASE = [0, 16, 0, 0, 0, 0, 0, 0]


def prog_words(kind):
    """small RV64 programs with 1-4 basic blocks of different sizes"""
    A = lambda rd, rs, imm: i_type(0x13, 0, rd, rs, imm)
    if kind == 0:      # single block, independent instructions
        return [A(1, 0, 1), A(2, 0, 2), A(3, 0, 3), A(4, 0, 4)]
    if kind == 1:      # three blocks of sizes 3, 2, 1 (+ tail)
        return [A(1, 0, 5), A(2, 0, 7), b_type(0x63, 0, 1, 2, 12), A(3, 0, 1), j_type(0x6F, 0, 8), A(4, 0, 2), A(5, 0, 3), A(6, 0, 9)]
    if kind == 2:      # loop: blocks 1 + 3 + 2
        return [A(1, 0, 3), A(2, 2, 1), A(1, 1, -1), b_type(0x63, 1, 1, 0, -8), A(7, 0, 1), r_type(0x33, 0, 0, 8, 7, 2)]
    if kind == 4:      # indirect jump through a register the user supplies, then three instructions
        return [i_type(0x67, 0, 0, 5, 0), A(1, 0, 1), A(2, 0, 2), A(3, 0, 3)]
    # memory traffic, two blocks
    return [u_type(0x37, 5, 0x10), s_type(0x23, 3, 5, 1, 0), i_type(0x03, 3, 6, 5, 0), b_type(0x63, 1, 6, 0, 8), A(7, 0, 1), A(8, 0, 2), A(9, 0, 3)]


def uinew(gid, kind, entry=0):
    bs = []
    for w in prog_words(kind):
        bs += word_bytes(w)
    return {"case": gid, "op": "uinew", "base": BASE, "image": [{"off": 0, "bytes": bs}], "data": [], "entry": entry}


def num_tok(v):
    """(token text, argument description for the specification)"""
    return str(v), {"kind": "num", "v": v}


NUM_SPECIAL = [("9223372036854775807", {"kind": "num", "v": -1}), ("9223372036854775808", {"kind": "bad", "v": 0}),
               ("-1", {"kind": "bad", "v": 0}), ("+1", {"kind": "num", "v": 1}), ("x", {"kind": "bad", "v": 0}),
               ("007", {"kind": "num", "v": 7}), ("1e3", {"kind": "bad", "v": 0}), ("0x10", {"kind": "bad", "v": 0}),
               ("99999999999999999999", {"kind": "bad", "v": 0})]


def describe_arg(t):
    """argument description for the specification (TLC strings are opaque, its integers 32 bit): decimal literals
    the command parser accepts are numbers (2^63-1 is written as -1 = 'beyond every listing'), the rest is not"""
    if re.fullmatch(r"\+?[0-9]+", t) and "_" not in t:
        v = int(t)
        if v < 1 << 30:
            return {"kind": "num", "v": v}
        if v < 1 << 63:
            return {"kind": "num", "v": -1}
        return {"kind": "bad", "v": 0}
    return {"kind": "str", "v": 0}


def cmd(gid, toks, args=None, seps=None, pat="", filler="0"):
    return {"case": gid, "op": "cmd", "toks": toks, "seps": seps or [], "filler": filler, "fillv": describe_arg(filler),
            "args": args if args is not None else [describe_arg(t) for t in toks[1:]], "pat": pat}


class UICheck(Check):
    family = "ui"
    module = "TraceUI"
    level_text, level_note = UI_LEVEL, UI_NOTE
    technique = ("TLA+ UI model (UI.tla) with TLC-checked navigation machine; scripted sessions replayed into the real UI; "
                 "recorded projections validated by the TLA+ trace specification")
    trusted = ["Go harness facade: input scripting, stdout capture, text tokeniser, literal substring test", "TLC, CommunityModules Json"]
    mc = [("UI_MC", "UI_MC"), ("UISession_MC", "UISession_MC")]
    mc_thorough = [("UISession_MC", "UISession_MC_14")]
    whys = None
    # the model also says how the mode stack evolves, which lines a view shows and that the emulator's cursor
    # follows the instruction pointer; these are checked on every session and reported, but belong to no listed property
    extra_whys = ("modestack", "ipcursor", "window", "marks", "emuregs")

    @property
    def constants(self):
        # only the classes the check owns (and the beyond-property classes) are judged, so that a disagreement of another
        # property's class in the same event cannot hide them
        return "CONSTANT Focus = {%s}\n" % ", ".join('"%s"' % w for w in sorted(set(self.whys or ()) | set(self.extra_whys if self.whys else ())))

    def stateful(self):
        return True

    def filter_bad(self, bad):
        if self.whys is None:
            return bad
        return [b for b in bad if b["why"] in self.whys or b["why"] in self.extra_whys]

    def nontrivial_key(self, group, events):
        if len(group) < 2:
            return None
        return repr([(c["op"], c.get("toks"), c.get("seps"), c.get("n"), c.get("which"), c.get("entry"), c.get("image"),
                      c.get("memstores"), c.get("nregs"), c.get("stores")) for c in group])


def listing_len(kind):
    """number of listing lines of prog_words(kind) (blocks: header + instructions + blank)"""
    return {0: 6, 1: 15, 2: 12, 3: 11, 4: 8}[kind]


class C22(UICheck):
    pid = "C22"
    whys = {"crash", "stuck", "rendercrash"}
    rule = ("sessions of 1-6 input lines on 4 programs (1-4 basic blocks): every command key of the three modes "
            "(disassembler, emulator, memory view) and unknown keys x numeric arguments {0, 1, around the listing length, "
            "2^63-1, 2^63, -1, +1, x, 007, 1e3, 0x10, 10^20} x missing / surplus arguments x spacing variants (leading, "
            "trailing, doubled, only spaces, empty line) x regex arguments (literal hit / miss, multi-token, invalid) x "
            "register / memory keys present and absent x prompt answers; every line must be executed or answered with an "
            "error message (outcome class from the real processCommand; a panic, an unexpected error return or > 200 "
            "consumed input lines is a violation); non-trivial = session with >= 2 lines; distinct by session script")
    assumptions = ["in-process driving of UI.processCommand; terminal size handling of view.Print is outside this check",
                   "prompts are answered with '0' (valid value, and accepted by 'Press ENTER') except in the sessions that vary "
                   "the typed value (in range, 2^(8w), far out of range, other bases, 600 digits, malformed then valid)"]

    def groups(self, tier, seed):
        rng = random.Random(seed * 295075147 + 22)
        gs = []
        k = [0]

        def session(kind, lines, entry=0):
            gid = "s%d" % k[0]
            k[0] += 1
            gs.append([uinew(gid, kind, entry)] + [dict(c, case=gid) for c in lines])
        nums = lambda L: [num_tok(v) for v in (0, 1, 2, L - 2, L - 1, L, L + 1)] + NUM_SPECIAL
        dis_cmds1 = ["down", "d", "up", "u", "goto", "g", "bounds", "b"]
        for kind in range(4):
            L = listing_len(kind)
            # one-argument commands with every numeric class, from two cursor positions
            for c in dis_cmds1:
                for t, a in nums(L):
                    pre = [] if rng.random() < 0.5 else [cmd("", ["goto", str(L - 1)], [{"kind": "num", "v": L - 1}])]
                    session(kind, pre + [cmd("", [c, t], [a])])
            # commands that use the cursor, after navigating into the end region (also by values the listing does not have)
            for navc in ("goto", "down"):
                for v in (L - 2, L - 1, L, L + 1):
                    nav = cmd("", [navc, str(v)], [{"kind": "num", "v": v}])
                    for follow in (["e"], ["find", "addi"], ["bounds", str(v)], ["alllines"], ["d", "0"], ["u", "0"], ["entry"]):
                        session(kind, [nav, cmd("", follow), {"case": "", "op": "render", "n": 8}, cmd("", ["s"])])
            # move with all pairs of interesting lines
            vals = [0, 1, 2, 3, L - 2, L - 1, L, L + 5]
            for a in vals:
                for b in vals:
                    if tier == "quick" and rng.random() < 0.5:
                        continue
                    session(kind, [cmd("", ["move", str(a), str(b)], [{"kind": "num", "v": a}, {"kind": "num", "v": b}]),
                                   cmd("", ["d", "1"], [{"kind": "num", "v": 1}])])
            # find from every cursor position (incl. the last line)
            for pos in range(L):
                for pat_toks in (["addi"], ["x1,", "x0"], ["zzz"], ["[", "x"], ["Block"], ["("]):
                    if tier == "quick" and rng.random() < 0.6 and pos not in (0, L - 1):
                        continue
                    session(kind, [cmd("", ["goto", str(pos)], [{"kind": "num", "v": pos}]), cmd("", ["find"] + pat_toks)])
            # after a block move (listing rebuilt, blocks of different sizes change places): every command that maps lines to
            # blocks and instructions, on every line
            hdrs = {1: [0, 5, 9], 2: [0, 3, 8], 3: [0, 6]}.get(kind, [])
            for a in hdrs:
                for b in hdrs:
                    if a == b:
                        continue
                    bm = cmd("", ["move", str(a), str(b)])
                    for l0 in range(0, L, 4):
                        session(kind, [bm] + [cmd("", ["bounds", str(l)]) for l in range(l0, min(L, l0 + 4))] +
                                [{"case": "", "op": "render", "n": 8}, cmd("", ["entry"]), cmd("", ["e"]), cmd("", ["s"])])
                    for l in range(1, L - 1):
                        session(kind, [bm, cmd("", ["move", str(l), str(l + 1)]), cmd("", ["move", str(l + 1), str(l)]),
                                       cmd("", ["bounds", str(l)]), {"case": "", "op": "render", "n": 8}])
            # arity / spacing / unknown commands / empty input
            odd = [cmd("", []), cmd("", [], seps=[3]), cmd("", ["down"]), cmd("", ["move", "1"], [{"kind": "num", "v": 1}]),
                   cmd("", ["goto", "1", "2"], [{"kind": "num", "v": 1}, {"kind": "num", "v": 2}]), cmd("", ["nosuch"]),
                   cmd("", ["down", "1"], [{"kind": "num", "v": 1}], seps=[2, 3, 2]), cmd("", ["help"]), cmd("", ["h", "x"]),
                   cmd("", ["alllines"]), cmd("", ["entrypoint"]), cmd("", ["entry", "5"]), cmd("", ["find"]),
                   cmd("", ["/", "a", "b", "c"]), cmd("", ["bounds"]), cmd("", ["q", "now"]), cmd("", ["emulate", "x"])]
            for c in odd:
                session(kind, [c, cmd("", ["d", "0"], [{"kind": "num", "v": 0}])])
            # the same line entered again (immediately, and after another command): an answer - in particular an error
            # answer - may not leave anything behind that breaks the next identical request
            again = odd + [cmd("", ["find", "["]), cmd("", ["find", "("]), cmd("", ["/", "a\\"]), cmd("", ["find", "addi"], pat="addi"),
                           cmd("", ["find", "nosuchtext"], pat="nosuchtext"), cmd("", ["goto", "zz"]), cmd("", ["goto", "999"], [{"kind": "num", "v": 999}]),
                           cmd("", ["down", "-1"]), cmd("", ["move", "1", "x"]), cmd("", ["bounds", "zz"]), cmd("", ["bounds", "0"], [{"kind": "num", "v": 0}]),
                           cmd("", ["move", "0", "1"], [{"kind": "num", "v": 0}, {"kind": "num", "v": 1}])]
            for c in again:
                session(kind, [c, c, cmd("", ["d", "1"], [{"kind": "num", "v": 1}]), c, {"case": "", "op": "render", "n": 8}])
            # emulator and memory view
            emu_lines = [["s"], ["step"], ["forward", "x"], ["memories"], ["ms", "1"], ["memory", "memory"], ["memory", "nokey"], ["m"],
                         ["regmod", "x1"], ["regmod", "nokey"], ["rmod"], ["q"], ["help"], ["nosuch"], [], ["down", "1"]]
            mem_lines = [["down", "1"], ["up", "1"], ["goto", "0"], ["goto", "99"], ["address", "0x1000"], ["addr", "5"], ["a", "0"],
                         ["a", "0b101"], ["a", "4096"], ["a", "-1"], ["a"], ["a", "0x"], ["a", "18446744073709551616"], ["q"], ["help"], []]
            for start in range(1, L - 1):
                if tier == "quick" and start % 2 == 0:
                    continue
                for _ in range(2 if tier == "quick" else 6):
                    ls = [cmd("", ["goto", str(start)], [{"kind": "num", "v": start}]), cmd("", ["e"])]
                    for _ in range(rng.choice([1, 2, 3])):
                        ls.append(cmd("", rng.choice(emu_lines)))
                    session(kind, ls)
            for el in emu_lines:
                session(kind, [cmd("", ["entry"]), cmd("", ["e"]), cmd("", el), cmd("", ["s"])])
                if el != ["q"]:
                    session(kind, [cmd("", ["entry"]), cmd("", ["e"]), cmd("", el), cmd("", el), cmd("", ["s"]), cmd("", el)])
            # what is typed at the emulator's value prompts (every later prompt of the session gets the same answer;
            # "a\n\nb": a malformed line, the line acknowledging the error message, then the prompt asks again): in range, exactly 2^(8w), far out of range in both
            # directions, other bases, very long
            fills = ["0", "1", "-1", "255", "256", "65536", "4294967296", "18446744073709551615", "18446744073709551616",
                     "-18446744073709551616", "-36893488147419103232", "0x" + "f" * 40, "0b" + "1" * 70, "0" + "7" * 30,
                     "9" * 600, "\n\n7", "zz\n\n256", "1_0\nx\n18446744073709551616", "-\n\n-300", "0x\n0\n0x1ff"]
            for fi, fill in enumerate(fills):
                for start in range(1, L - 1):
                    if tier == "quick" and (start + fi) % 3:
                        continue
                    ls = [cmd("", ["goto", str(start)], [{"kind": "num", "v": start}]), cmd("", ["e"])]
                    ls += [cmd("", ["s"], filler=fill), cmd("", ["s"], filler=fill), cmd("", ["regmod", "x1"], filler=fill),
                           cmd("", ["regmod", "x5"], filler=fill), cmd("", ["s"], filler=fill), cmd("", ["memory", "memory"]),
                           {"case": "", "op": "render", "n": 8}]
                    session(kind, ls)
            for mkey in ("memory", "nokey"):
                for ml in mem_lines:
                    for steps in (0, 2):
                        if tier == "quick" and steps == 2 and rng.random() < 0.5:
                            continue
                        session(kind, [cmd("", ["entry"]), cmd("", ["e"])] + [cmd("", ["s"])] * steps +
                                [cmd("", ["memory", mkey]), cmd("", ml), cmd("", ["d", "0"])])
        # an indirect jump to wherever the user says: instruction starts, the middle of an instruction (also of the jump
        # itself), the end of the code, outside it, odd addresses, the ends of the address space
        for v in (0x1004, 0x1005, 0x1006, 0x1002, 0x1000, 0x100C, 0x100E, 0x1010, 0x1012, 0x2000, 0, 1, 2, (1 << 64) - 1, (1 << 64) - 4, 1 << 63):
            for via in ("prompt", "regmod"):
                ls = [cmd("", ["goto", "1"]), cmd("", ["e"])]
                if via == "regmod":
                    ls += [cmd("", ["s"], filler="4100"), cmd("", ["q"]), cmd("", ["goto", "1"]), cmd("", ["e"]),
                           cmd("", ["regmod", "x5"], filler=str(v))]
                ls += [cmd("", ["s"], filler=str(v)), {"case": "", "op": "render", "n": 9}, cmd("", ["s"], filler=str(v)),
                       cmd("", ["s"], filler="3"), {"case": "", "op": "render", "n": 9}, cmd("", ["memory", "memory"]), cmd("", ["q"]), cmd("", ["q"]),
                       cmd("", ["d", "1"])]
                session(4, ls)
        return gs


class C31(UICheck):
    pid = "C31"
    whys = {"cursor", "noerror", "navfailed"}
    exhaustive = True
    rule = ("on 4 programs (listings of 6-15 lines), from EVERY cursor position (set by 'goto'): down/up N for N in "
            "{0,1,2, up to both ends +-1, huge, malformed}, goto N (every line, len, len+1, huge, malformed), entrypoint "
            "(entry at different instructions, also after accepted block and instruction moves), find with literal "
            "patterns (hit before / after the cursor, only on the cursor line, nowhere, multi-token, header text) and an "
            "invalid regex; expected cursor or 'error and unchanged' from UI!Down/Up/Goto/Find/InstrLine; non-trivial = "
            "session with >= 2 lines; distinct by session script")
    assumptions = ["patterns are literals (POSIX regex semantics beyond literals is out of scope); literal containment per "
                   "line is evaluated by the harness because TLC strings are opaque",
                   "whether 'no match' is phrased as an error is not compared"]

    def groups(self, tier, seed):
        rng = random.Random(seed * 314606869 + 31)
        gs, k = [], [0]

        def session(kind, lines, entry=0):
            gid = "n%d" % k[0]
            k[0] += 1
            gs.append([uinew(gid, kind, entry)] + [dict(c, case=gid) for c in lines])
        for kind in range(4):
            L = listing_len(kind)
            for pos in range(L):
                go = cmd("", ["goto", str(pos)], [{"kind": "num", "v": pos}])
                vals = sorted({0, 1, 2, pos, pos + 1, L - pos - 1, L - pos, L - 1, L, L + 1})
                for c in ("down", "up", "g"):
                    for v in vals:
                        session(kind, [go, cmd("", [c, str(v)], [{"kind": "num", "v": v}])])
                    for t, a in NUM_SPECIAL[:5]:
                        session(kind, [go, cmd("", [c, t], [a])])
                    if pos in (0, 3, L - 1):
                        # decimal is the only base: zero padded numbers (also with the digits 8 and 9), prefixes, underscores
                        for t in ("08", "009", "010", "0011", "0x2", "0b10", "0o7", "1_0", "0_1"):
                            session(kind, [go, cmd("", [c, t])])
                for pat in ("addi", "x1, x0", "Block 2", "Block", "zzz", "93 00", "x9"):
                    session(kind, [go, cmd("", ["find"] + pat.split(" "), pat=pat)])
                session(kind, [go, cmd("", ["find", "[", "x"])])
                session(kind, [go, cmd("", ["entry"])])
            nwords = len(prog_words(kind))
            for entry in range(0, 4 * nwords, 4):
                session(kind, [cmd("", ["goto", "3"], [{"kind": "num", "v": 3}]), cmd("", ["entrypoint"])], entry=entry)
        # entry point after block moves (kind 1: headers at lines 0, 5, 9; kind 3: 0, 6)
        for kind, hdrs in ((1, [0, 5, 9]), (3, [0, 6]), (2, [0, 3, 8])):
            nwords = len(prog_words(kind))
            for a in hdrs:
                for b in hdrs:
                    if a == b:
                        continue
                    for entry in range(0, 4 * nwords, 4):
                        session(kind, [cmd("", ["move", str(a), str(b)], [{"kind": "num", "v": a}, {"kind": "num", "v": b}]),
                                       cmd("", ["entry"]), cmd("", ["find", "addi"], pat="addi")], entry=entry)
                        # every navigation command used before AND after the listing changed (nothing may be remembered
                        # across a move), the second time from another cursor position
                        mv = cmd("", ["move", str(a), str(b)], [{"kind": "num", "v": a}, {"kind": "num", "v": b}])
                        session(kind, [cmd("", ["entry"]), cmd("", ["find", "addi"], pat="addi"), mv, cmd("", ["goto", "2"]),
                                       cmd("", ["entry"]), cmd("", ["find", "addi"], pat="addi"), mv, cmd("", ["entry"]),
                                       cmd("", ["up", "1"]), cmd("", ["find", "Block"], pat="Block")], entry=entry)
        # ... and around instruction moves inside a block (kind 0: four independent instructions at lines 1-4)
        for a in range(1, 5):
            for b in range(1, 5):
                if a != b:
                    for entry in (0, 4, 12):
                        mv = cmd("", ["move", str(a), str(b)])
                        session(0, [cmd("", ["entry"]), cmd("", ["find", "x3"], pat="x3"), mv, cmd("", ["goto", "0"]), cmd("", ["entry"]),
                                    cmd("", ["find", "x3"], pat="x3"), cmd("", ["find", "x3"], pat="x3")], entry=entry)
        return gs


class C23(UICheck):
    pid = "C23"
    whys = {"stale", "structure", "rejectedchanged"}
    rule = ("on 4 programs (blocks of different sizes), histories of 1-6 'move' commands: instruction moves inside a block, "
            "block moves between headers (adjacent and distant, blocks of different sizes), and rejected requests "
            "(dependent instructions, blank lines, header<->instruction, across blocks); exhaustive over all pairs of "
            "lines for single moves and seeded for longer histories; after every line the incremental listing (move "
            "markers ignored) must equal a fresh rendering of the same code and the structure UI!Listing of the code "
            "projection (block order, position numbers, start addresses, instruction text and bytes, single blank "
            "separators); a rejected move leaves the listing unchanged; non-trivial = session with an accepted move; "
            "distinct by session script")
    assumptions = ["line numbers stay inside the listing (out-of-range arguments belong to C22)"]

    def nontrivial_key(self, group, events):
        if not any(e["op"] == "cmd" and e["outcome"] == "executed" and e["toks"][:1] == ["move"] for e in events):
            return None
        return UICheck.nontrivial_key(self, group, events)

    def groups(self, tier, seed):
        rng = random.Random(seed * 334214467 + 23)
        gs, k = [], [0]

        def session(kind, lines):
            gid = "m%d" % k[0]
            k[0] += 1
            gs.append([uinew(gid, kind)] + [dict(c, case=gid) for c in lines])
        mv = lambda a, b: cmd("", ["move", str(a), str(b)], [{"kind": "num", "v": a}, {"kind": "num", "v": b}])
        for kind in range(4):
            L = listing_len(kind)
            for a in range(L):
                for b in range(L):
                    session(kind, [mv(a, b)])
            for _ in range(150 if tier == "quick" else 3000):
                n = rng.choice([2, 3, 4, 6])
                session(kind, [mv(rng.randrange(L), rng.randrange(L)) for _ in range(n)])
            # every block move followed by moves of instruction lines of the new listing (and a second block move)
            hdrs = {0: [0], 1: [0, 5, 9], 2: [0, 3, 8], 3: [0, 6]}[kind]
            for ha in hdrs:
                for hb in hdrs:
                    if ha == hb:
                        continue
                    pairs = [(a, b) for a in range(L) for b in range(L) if a != b and abs(a - b) <= 3]
                    if tier == "quick":
                        pairs = rng.sample(pairs, min(len(pairs), 24))
                    for a, b in pairs:
                        tail = [mv(a, b)]
                        if rng.random() < 0.3:
                            tail.append(mv(rng.choice(hdrs), rng.choice(hdrs)))
                            tail.append(mv(rng.randrange(L), rng.randrange(L)))
                        session(kind, [mv(ha, hb)] + tail)
        return gs


class C24(UICheck):
    pid = "C24"
    whys = {"rendercrash", "height"}
    rule = ("view states: the listing with the cursor on every line (4 programs), in disassembler and emulator mode "
            "(listing + register view composite, after 0-3 steps), the memory view (with and without memory); register "
            "views of 0..33 registers with and without ip; memory views of 8 layouts; composites regs+mem, mem+mem, "
            "list+regs; memory views of 1-12 rows with the cursor on every row, granted fewer / as many / far more lines; "
            "granted heights MinLines..MinLines+6, MaxLines-1, MaxLines (never above a finite MaxLines) and "
            "40 / 200 for unbounded views; judged: no panic, written lines <= granted, = declared height when "
            "MinLines = MaxLines; non-trivial = height >= MinLines; distinct by (state, height)")
    assumptions = ["heights below MinLines and above a finite MaxLines are excluded (view.Print never grants them)",
                   "the command prompt element (not among the anchored views) is not height-checked"]

    def nontrivial_key(self, group, events):
        return UICheck.nontrivial_key(self, group, events)

    def groups(self, tier, seed):
        rng = random.Random(seed * 353868019 + 24)
        gs, k = [], [0]

        def session(kind, lines):
            gid = "r%d" % k[0]
            k[0] += 1
            gs.append([uinew(gid, kind)] + [dict(c, case=gid) for c in lines])
        rend = lambda n: {"case": "", "op": "render", "n": n}
        for kind in range(4):
            L = listing_len(kind)
            heights = sorted({5, 6, 7, 8, 9, 10, 11, L - 1, L})
            for pos in range(L):
                session(kind, [cmd("", ["goto", str(pos)], [{"kind": "num", "v": pos}])] + [rend(n) for n in heights if n <= L])
            for steps in range(0, 4):
                for n in range(5, L + 12):
                    if tier == "quick" and n % 2 and n > 9:
                        continue
                    session(kind, [cmd("", ["entry"]), cmd("", ["e"])] + [cmd("", ["s"])] * steps + [rend(n)])
            # the mode's own (long-lived) view rendered before and after every state change: nothing about a view's
            # height may be remembered across renders (the register view grows with every newly written register)
            for n in range(6, L + 12):
                if tier == "quick" and n % 3 == 0:
                    continue
                ls = [cmd("", ["entry"]), cmd("", ["e"]), rend(n)]
                for _ in range(4):
                    ls += [cmd("", ["s"]), rend(n)]
                ls += [cmd("", ["regmod", "x1"], filler="5"), rend(n), cmd("", ["q"]), rend(n), cmd("", ["d", "1"]), rend(n)]
                session(kind, ls)
            for key in ("memory", "nokey"):
                session(kind, [cmd("", ["entry"]), cmd("", ["e"]), cmd("", ["s"]), cmd("", ["memory", key])] +
                        [rend(n) for n in (5, 6, 7, 8, 12, 40, 200)])
                session(kind, [cmd("", ["entry"]), cmd("", ["e"]), rend(9), cmd("", ["s"]), cmd("", ["memory", key]), rend(9),
                               cmd("", ["q"]), rend(9), cmd("", ["s"]), rend(9), cmd("", ["memory", key]), rend(7)])
        # heights taken from what the view itself declares: exactly its minimum, and 1-3 lines more
        relr = lambda k: {"case": "", "op": "render", "n": k, "rel": True}
        for kind in range(4):
            for key in ("memory", "nokey"):
                for steps in (0, 1, 3):
                    session(kind, [cmd("", ["entry"]), cmd("", ["e"])] + [cmd("", ["s"])] * steps + [relr(0), relr(1), relr(3)] +
                            [cmd("", ["memory", key]), relr(0), relr(1), relr(2), relr(4), cmd("", ["q"]), relr(0), cmd("", ["q"]), relr(0), relr(2)])
        layouts = [[], [[0, 8]], [[5, 8]], [[0, 8], [64, 4]], [[0, 4], [8, 2]], [[1, 1], [3, 1], [15, 1]], [[14, 1], [17, 2], [20, 1]], [[16, 8], [24, 8], [32, 8]], [[0, 8], [4096, 8], [65536, 2]],
                   [[i * 40, 8] for i in range(12)], [[8, 1], [300, 8], [301, 2]]]
        for nregs in range(0, 34):
            for withip in (False, True):
                lo = (nregs + 1) // 2
                for n in sorted({lo, lo + 1, lo + 3}):
                    gs.append([{"case": "p%d" % k[0], "op": "parts", "which": "regs", "nregs": nregs, "withip": withip, "stores": [], "n": n}])
                    k[0] += 1
        for lay in layouts:
            for n in (5, 6, 7, 9, 12, 20, 40, 200):
                gs.append([{"case": "p%d" % k[0], "op": "parts", "which": "mem", "nregs": 0, "withip": False, "stores": lay, "n": n}])
                k[0] += 1
                if n <= 7:
                    for which, nr in (("mem", 0), ("regs+mem", 3), ("mem+mem", 0), ("regs", 5)):
                        gs.append([{"case": "p%d" % k[0], "op": "parts", "which": which, "nregs": nr, "withip": True, "stores": lay,
                                    "n": n - 5, "rel": True}])
                        k[0] += 1
                for which, nr in (("regs+mem", 4), ("mem+mem", 0), ("regs+mem", 9)):
                    m = {"regs+mem": (nr + 1) // 2 + 5 + 1, "mem+mem": 11}[which]
                    gs.append([{"case": "p%d" % k[0], "op": "parts", "which": which, "nregs": nr, "withip": True, "stores": lay, "n": max(n, m) + (n % 3)}])
                    k[0] += 1
        # the memory view itself with the cursor moved to every row (and beyond), granted less than, exactly and far more
        # than it has rows
        for li, lay in enumerate([[[i * 40, 8] for i in range(12)], [[0, 8], [4096, 8], [65536, 2]], [[5, 8]], [[16, 8], [24, 8], [32, 8]]]):
            nrows = 2 * len(lay) + 1
            for cur in range(0, nrows + 1):
                gid = "mv%d_%d" % (li, cur)
                g = [{"case": gid, "op": "memnew", "memkind": "sparse",
                      "memstores": [{"addr": a8(a), "bytes": [(0x21 + 3 * j) % 256 for j in range(ln)], "layer": "over"} for a, ln in lay]}]
                g.append(cmd(gid, [rng.choice(["goto", "g"]), str(cur)], [{"kind": "num", "v": cur}]))
                for n in (5, 6, 7, 9, 12, 15, 20, 26, 40, 200):
                    g.append({"case": gid, "op": "render", "n": n})
                g.append(cmd(gid, ["down", "1"], [{"kind": "num", "v": 1}]))
                g.append({"case": gid, "op": "render", "n": 15})
                g.append(cmd(gid, ["up", "2"], [{"kind": "num", "v": 2}]))
                g.append({"case": gid, "op": "render", "n": 7})
                gs.append(g)
        for kind in range(4):
            L = listing_len(kind)
            for nr in (0, 3, 6):
                for n in range(5 + (nr + 1) // 2 + 1, L + (nr + 1) // 2 + 2):
                    gs.append([uinew("q%d" % k[0], kind), {"case": "q%d" % k[0], "op": "parts", "which": "list+regs", "nregs": nr,
                                                          "withip": False, "stores": [], "n": n}])
                    k[0] += 1
        return gs


def a8(v):
    return [(v >> (8 * i)) & 255 for i in range(8)]


class C32(UICheck):
    pid = "C32"
    whys = {"rowaddr", "rows", "cells", "address", "crash", "stuck"}
    rule = ("memories built from 1-5 constant stores (lengths 1-24, overlapping, adjacent, far apart, a row at address 0, "
            "rows crossing 16-byte windows; exhaustively one range [s, e) at every position inside a window, alone and followed "
            "by a second range) as Sparse, Bytes and Overlay(Bytes, Sparse) (upper layer shadows the base), and "
            "the absent memory; the rows of the memory view (ellipsis | window address + 16 cells) must be exactly the "
            "windows overlapping stored memory in address order with single ellipsis rows between non-consecutive "
            "windows, each cell the current byte or the absent mark; 'address A' for A stored / in a shown window / "
            "outside selects the row or reports none; up/down/goto keep the rows; non-trivial = memory with >= 1 store; "
            "distinct by (memory kind, stores, commands)")
    assumptions = ["addresses below 2^24 (rows are compared as small integers)",
                   "leading and trailing ellipsis rows are allowed, not required",
                   "'address A' for an absent byte inside a shown window may select the row or report none (the property "
                   "does not say which)"]

    def nontrivial_key(self, group, events):
        if not group[0].get("memstores"):
            return None
        return UICheck.nontrivial_key(self, group, events)

    def groups(self, tier, seed):
        rng = random.Random(seed * 373587883 + 32)
        gs = []
        n = 250 if tier == "quick" else 4000
        for i in range(n):
            gid = "v%d" % i
            kind = rng.choice(["sparse", "sparse", "bytes", "overlay"])
            stores = []
            anchor = rng.choice([0, 0, 7, 16, 250, 4090, 65530])
            for _ in range(rng.choice([1, 2, 3, 5])):
                a = anchor + rng.choice([0, 1, 3, 8, 15, 16, 17, 31, 33, 64, 200, 1000])
                ln = rng.choice([1, 2, 4, 8, 8, 16, 24]) if kind != "bytes" else rng.choice([1, 3, 8, 20])
                stores.append({"addr": a8(a), "bytes": [rng.randrange(256) for _ in range(ln)], "layer": rng.choice(["base", "over"])})
            if kind in ("bytes", "overlay"):        # initial byte blocks must not overlap
                ok, seen = [], set()
                for s in stores:
                    a0 = sum(b << (8 * j) for j, b in enumerate(s["addr"]))
                    r = set(range(a0, a0 + len(s["bytes"])))
                    if (kind == "bytes" or s["layer"] == "base") and r & seen:
                        continue
                    if kind == "bytes" or s["layer"] == "base":
                        seen |= r
                    ok.append(s)
                stores = ok
            if kind != "overlay":
                for s in stores:
                    s["layer"] = "over"
            g = [{"case": gid, "op": "memnew", "memkind": kind if rng.random() > 0.03 else "nil", "memstores": stores}]
            if g[0]["memkind"] == "nil":
                g[0]["memstores"] = []
            probes = [anchor, anchor + 1, anchor + 17, anchor + 40, anchor + 5000, 0, 15, 16]
            for s in stores[:2]:
                a0 = sum(b << (8 * j) for j, b in enumerate(s["addr"]))
                probes += [a0, a0 + len(s["bytes"]) - 1, a0 + len(s["bytes"])]
            for _ in range(4):
                c = rng.random()
                if c < 0.6:
                    a = rng.choice(probes)
                    t = rng.choice([str(a), hex(a), "0%o" % a if a else "0"])
                    g.append(cmd(gid, [rng.choice(["address", "addr", "a"]), t], [{"kind": "num", "v": a}]))
                elif c < 0.8:
                    v = rng.randrange(0, 6)
                    g.append(cmd(gid, [rng.choice(["down", "up", "goto"]), str(v)], [{"kind": "num", "v": v}]))
                else:
                    g.append(cmd(gid, rng.choice([["a", "zz"], ["a"], [], ["help"], ["a", "-1"]])))
            gs.append(g)
        # one row exhaustively: a stored range [s, e) at every position inside a 16-byte window (every boundary between
        # stored and absent cells, in particular at the half-row separator and at the row's ends), alone and followed by
        # a second range after a gap of one absent byte
        k = 0
        for w0 in (0, 48):
            for st in range(16):
                for en in range(st + 1, 17):
                    if tier == "quick" and w0 == 48 and (st + en) % 3:
                        continue
                    for second in (False, True):
                        if second and en + 2 > 16:
                            continue
                        gid = "w%d" % k
                        k += 1
                        stores = [{"addr": a8(w0 + st), "bytes": [(0x11 + 7 * j) % 256 for j in range(en - st)], "layer": "over"}]
                        if second:
                            stores.append({"addr": a8(w0 + en + 1), "bytes": [0xE0 + j for j in range(rng.randrange(1, 16 - en))],
                                           "layer": "over"})
                        g = [{"case": gid, "op": "memnew", "memkind": rng.choice(["sparse", "sparse", "overlay", "bytes"]),
                              "memstores": stores}]
                        for a in (w0 + st, w0 + en - 1):
                            g.append(cmd(gid, ["a", str(a)], [{"kind": "num", "v": a}]))
                        gs.append(g)
        return gs


class C29(UICheck):
    pid = "C29"
    whys = {"crash", "nontermination", "linefit", "characters", "wordsplit"}
    exhaustive = True
    mc = []
    rule = ("texts: all sequences of <= 4 words with lengths from {1,2,3,5,9} separated by 1-3 spaces (no leading space), "
            "plus single long words and sampled longer texts; indentation 0,1,2 (and every depth 3..20 on sampled texts); every width leaving 1..12 characters of "
            "room (and 80); the output is measured per line (tabs, length, lengths of space-separated pieces) and judged: "
            "terminates, every line = indentation + at most the room, all non-space characters in order, a word is cut "
            "only if it alone is longer than the room; non-trivial = text with >= 2 words; distinct by (text, indent, width)")
    assumptions = ["texts are single-line without leading spaces; indentation and width leave room for at least one character"]

    def stateful(self):
        return True             # the same text formatted for several widths goes through one process, in order

    def nontrivial_key(self, group, events):
        c = group[0]
        if len(c["text"]) < 2:
            return None
        return repr((c["text"], c["sepst"], c["indent"], c["width"]))

    def groups(self, tier, seed):
        rng = random.Random(seed * 393342743 + 29)
        gs, k = [], 0
        lens = [1, 2, 3, 5, 9]
        texts = []
        for n in (1, 2, 3, 4):
            for ws in itertools.product(lens, repeat=n):
                if tier == "quick" and n == 4 and rng.random() < 0.7:
                    continue
                texts.append(list(ws))
        for ws in texts:
            words = ["abcdefghijklmnopqrstuvwxyz"[(3 * i) % 20:][:w] for i, w in enumerate(ws)]
            seps = [rng.choice([1, 1, 2, 3]) for _ in ws[1:]]
            for indent in (0, 1, 2):
                rooms = [1, 2, 3, 4, 5, 6, 9, 10, 12] if tier == "thorough" else rng.sample([1, 2, 3, 4, 5, 6, 9, 10, 12], 3)
                for room in rooms:
                    gs.append([{"case": "f%d" % k, "op": "format", "text": words, "sepst": seps, "indent": indent, "width": room + 8 * indent}])
                    k += 1
        # the same text wrapped again for other widths / indentations by the same process (wide, narrow, wide again)
        for j in range(60 if tier == "quick" else 600):
            n = rng.randrange(3, 14)
            words = ["".join(rng.choice("abcxyz.,") for _ in range(rng.choice([1, 2, 3, 4, 7, 12]))) for _ in range(n)]
            seps = [rng.choice([1, 1, 1, 2]) for _ in words[1:]]
            g = []
            for indent, width in ((1, 80), (1, 24), (1, 80), (0, 24), (2, 24), (1, 17)):
                g.append({"case": "f%d" % k, "op": "format", "text": words, "sepst": seps, "indent": indent, "width": width})
                k += 1
            gs.append(g)
        for _ in range(100 if tier == "quick" else 2000):
            n = rng.randrange(5, 30)
            words = ["".join(rng.choice("abcxyz.,") for _ in range(rng.choice([1, 2, 3, 4, 7, 12, 30]))) for _ in range(n)]
            gs.append([{"case": "f%d" % k, "op": "format", "text": words, "sepst": [rng.choice([1, 1, 1, 2]) for _ in words[1:]],
                        "indent": rng.choice([0, 1, 2]), "width": rng.choice([17, 20, 40, 80])}])
            k += 1
        # deep indentations (every depth up to 20, beyond a screen of 80 columns) with little and with plenty of room
        for indent in range(3, 21):
            for room in (1, 7, 8, 9, 30, 52):
                n = rng.randrange(4, 12)
                words = ["".join(rng.choice("abcxyz.,") for _ in range(rng.choice([1, 2, 3, 4, 7, 12]))) for _ in range(n)]
                gs.append([{"case": "f%d" % k, "op": "format", "text": words, "sepst": [rng.choice([1, 1, 2]) for _ in words[1:]],
                            "indent": indent, "width": 8 * indent + room}])
                k += 1
        return gs


class C30(UICheck):
    pid = "C30"
    whys = {"crash", "accept", "value"}
    exhaustive = True
    mc = []
    rule = ("literals = sign {'', '-', '+'} x prefix {'', 0x, 0X, 0b, 0B, 0, 0o} x digit strings {'', 0, 1, 7, 8, 9, f, 1f, "
            "101, g, z, 2^64-1, 2^64, 2^64+1, 20 digits, upper-case hex} plus raw malformed arguments (one character, "
            "underscores, spaces, '0x', '--1', 'x', ''), for the memory-view address parser (value or error, never a "
            "crash; 64-bit range) and for the emulator prompt at widths 1,2,4,8,16 (typed integer modulo 2^(8w); empty, "
            "underscore, malformed rejected); the value is computed digit-wise in BV; non-trivial = literal with >= 1 "
            "digit; distinct by (parser, literal, width)")
    assumptions = ["an argument is a token: never empty and without spaces (the empty line is tested for the prompt only)",
                   "'0o' octal is accepted by the prompt (Go base-0 syntax) and is 'any other argument' for the address parser"]

    def stateful(self):
        return False

    def nontrivial_key(self, group, events):
        c = group[0]
        if c["lit"].get("israw") or not c["lit"]["digits"]:
            return None
        return repr((c["op"], c["lit"], c.get("w")))

    def groups(self, tier, seed):
        rng = random.Random(seed * 413158511 + 30)
        gs, k = [], 0

        def digs(n, base):
            out = []
            while n:
                out.append(n % base)
                n //= base
            return out[::-1] or [0]
        bases = {"": 10, "0x": 16, "0X": 16, "0b": 2, "0B": 2, "0": 8, "0o": 8}
        lits = []
        for sign in ("", "-", "+"):
            for prefix, base in bases.items():
                cands = [[], [0], [1], [7], [8], [9], [15], [1, 15], [1, 0, 1], [16], [35], [base - 1], [base]]
                for v in (2 ** 64 - 1, 2 ** 64, 2 ** 64 + 1, 255, 256, 65535, 2 ** 32, 2 ** 63, 10 ** 19):
                    cands.append(digs(v, base))
                cands.append([rng.randrange(base) for _ in range(20)])
                for d in cands:
                    if prefix == "" and len(d) > 1 and d[0] == 0:
                        continue
                    if prefix == "0" and not d:
                        continue        # renders as "0": that is the decimal literal zero, not an empty octal
                    for upper in ((False, True) if any(x > 9 for x in d) else (False,)):
                        lits.append({"sign": sign, "prefix": prefix, "digits": d, "upper": upper, "raw": "", "israw": False})
        raws = ["x", "_", "1_0", "0x", "0b", "--1", "+-1", "0x_1", "1 ", "é", "0x1g", "1.5", "1e3", "٣", "0_7", "5", "-", "+"]
        for r in raws:
            if r == "5":
                continue
            lits.append({"sign": "", "prefix": "", "digits": [], "upper": False, "raw": r, "israw": True})
        for lit in lits:
            if not (lit["israw"] and (" " in lit["raw"] or lit["raw"] == "")):
                if not (not lit["israw"] and lit["sign"] == "" and lit["prefix"] == "" and not lit["digits"]):
                    gs.append([{"case": "p%d" % k, "op": "parseaddr", "lit": lit, "w": 8}])
                    k += 1
            for w in ((1, 2, 4, 8, 16) if tier == "thorough" or len(lit["digits"]) > 3 else (rng.choice([1, 2, 4]), 8)):
                gs.append([{"case": "v%d" % k, "op": "readvalue", "lit": lit, "w": w}])
                k += 1
        gs.append([{"case": "v%d" % k, "op": "readvalue", "lit": {"sign": "", "prefix": "", "digits": [], "upper": False, "raw": "", "israw": True}, "w": 4}])
        return gs
