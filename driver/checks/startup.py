"""C26: start-up is total over input files.  The real binary is run under a pseudo-terminal on structured and
corrupted ELF files; TraceStartup (spec/Startup.tla) says which outcomes are allowed."""
import os, pty, random, select, signal, struct, subprocess, fcntl, termios, time, resource, tempfile, shutil, json
import concurrent.futures as cf
from ..runner import Check
from .. import core
from ..gen_rv import i_type, j_type, b_type, word_bytes, T, encode, valid_in, CSRS
from .elfchk import a8

MLT = os.path.join(core.OUT, "bin", "mltwist")


def build_binary():
    os.makedirs(os.path.dirname(MLT), exist_ok=True)
    r = subprocess.run(["go", "build", "-o", MLT, "./cmd/mltwist"], cwd=core.REPO, env=core.GOENV, capture_output=True, text=True, timeout=600)
    if r.returncode != 0:
        raise core.Infra("building cmd/mltwist failed:\n" + r.stdout + r.stderr)


def run_pty(argv, timeout=20):
    """run the binary on a pty; returns (outcome, exit status, tail of the output)"""
    pid, fd = pty.fork()
    if pid == 0:
        try:
            # the terminal has its size before the program can ask for it (set by the parent only, a start-up that
            # wins the race sees a 0 x 0 terminal and waits for input without ever showing a prompt)
            fcntl.ioctl(0, termios.TIOCSWINSZ, struct.pack("HHHH", 40, 120, 0, 0))
            resource.setrlimit(resource.RLIMIT_AS, (6 << 30, 6 << 30))
            resource.setrlimit(resource.RLIMIT_CORE, (0, 0))
        except Exception:
            pass
        os.execv(argv[0], argv)
    fcntl.ioctl(fd, termios.TIOCSWINSZ, struct.pack("HHHH", 40, 120, 0, 0))
    out = b""
    t0 = time.time()
    seen_ui, sent, nudges = False, 0, 0
    status = None
    while True:
        if time.time() - t0 > timeout:
            os.kill(pid, signal.SIGKILL)
            os.waitpid(pid, 0)
            os.close(fd)
            return "timeout", -9, out[-300:].decode("latin1")
        r, _, _ = select.select([fd], [], [], 0.2)
        if r:
            try:
                d = os.read(fd, 65536)
            except OSError:
                d = b""
            if d:
                out += d
            else:
                pass
        if b"Enter command:" in out and not seen_ui:
            seen_ui = True
        if seen_ui and sent < 3 and (b"Enter command:" in out or b"leaving" in out):
            try:
                os.write(fd, b"q\n")
            except OSError:
                pass
            sent += 1
            time.sleep(0.05)
        elif time.time() - t0 > 5 + 3 * nudges and nudges < 40:
            # still running after seconds: whatever it waits for, a "q" line ends an interactive session
            try:
                os.write(fd, b"q\n")
            except OSError:
                pass
            nudges += 1
        w, st = os.waitpid(pid, os.WNOHANG)
        if w:
            status = st
            # drain
            try:
                while True:
                    r, _, _ = select.select([fd], [], [], 0.05)
                    if not r:
                        break
                    d = os.read(fd, 65536)
                    if not d:
                        break
                    out += d
            except OSError:
                pass
            break
    os.close(fd)
    text = out.decode("latin1")
    if os.WIFSIGNALED(status):
        return "crash", -os.WTERMSIG(status), text[-300:]
    code = os.WEXITSTATUS(status)
    if "panic:" in text or "fatal error:" in text or "goroutine " in text:
        return "crash", code, text[-400:]
    if seen_ui:
        return "ui", code, text[-120:]
    if code != 0 and "mltwist:" in text:
        return "error", code, text[-200:]
    return "silent", code, text[-200:]


def valid_words():
    return [i_type(0x13, 0, 1, 0, 5), i_type(0x13, 0, 2, 1, 7), b_type(0x63, 0, 1, 2, 8), i_type(0x13, 0, 3, 0, 1), i_type(0x13, 0, 4, 0, 2)]


def wbytes(ws):
    out = []
    for w in ws:
        out += word_bytes(w)
    return out


def elf_desc(words=None, etype=2, entry=0x1000, text_addr=0x1000, text_flags=6, load=True, memsz=None, extra_sects=None, extra_progs=None,
             text_bytes=None, filesz=-1):
    tb = text_bytes if text_bytes is not None else wbytes(words if words is not None else valid_words())
    progs = []
    if load:
        progs.append({"ptype": 1, "vaddr": a8(text_addr), "content": tb, "filesz": filesz, "memsz": a8(len(tb) if memsz is None else memsz), "flags": 5})
    progs += extra_progs or []
    sects = [{"name": ".text", "stype": 1, "flags": text_flags, "addr": a8(text_addr), "content": tb, "size": len(tb)}] + (extra_sects or [])
    return {"case": "w", "op": "elfwrite", "etype": etype, "machine": 243, "entry": a8(entry), "progs": progs, "sects": sects, "probes": [], "path": ""}


class C26(Check):
    pid = "C26"
    family = "elf"
    module = "TraceStartup"
    mc = []
    level_text = ("spec/Startup.tla is the outcome automaton of start-up (argument check, ELF open, type check, code "
                  "extraction, memory, decoding, code model, UI) and says for every structured input class at which stage "
                  "it must be refused; the real binary (built from the working tree) is run under a pseudo-terminal on "
                  "structured files, on a systematic table of truncations and header-field corruptions of a good file and "
                  "on seeded byte flips; TLC validates every observed outcome (prompt / error exit / crash) against the "
                  "automaton. The model contributes the outcome classes and the mutation space, not byte-level fuzzing power.")
    level_note = ("Trusted: TLC, Json module, the Python pty driver's outcome classifier (prompt seen; exit status; panic / "
                  "fatal error signature), the harness ELF writer. 6 GiB address-space limit per run; a timeout is an "
                  "infrastructure error, not a verdict.")
    technique = "TLA+ outcome automaton (Startup.tla); real binary under a pty on enumerated corruptions; TLC trace validation"
    trusted = ["Python pty driver and outcome classifier", "Go harness: ELF64 writer", "TLC, CommunityModules Json"]
    rule = ("inputs: argument vectors (none, two, missing file, directory, empty file, text file); structured ELF files "
            "(valid programs entered at every one of their instructions; programs over the whole RV64IMA alphabet with "
            "edge-grid fields and every CSR number of the grid; types none/rel/core; no executable section; overlapping sections / segments; no loadable "
            "segment; memory size below file size; memory size 2^40 and 2^62; undecodable word; truncated word; entry "
            "point mid-instruction / outside; jump out of the code / into an instruction; wrong class, endianness); "
            "mutations of a good file: truncation at every header / table / data boundary +-1, every ELF-header, "
            "program-header and section-header field overwritten with 0, 1, all-ones, 2^40; seeded random byte flips; "
            "allowed outcomes from Startup!Allowed; non-trivial = run of the binary; distinct by (class, mutation)")
    assumptions = ["exploration strength: classes and structured corruptions, not exhaustive byte-level fuzzing",
                   "the UI is entered under a 40x120 pseudo-terminal"]

    def nontrivial_key(self, group, events):
        return repr(group[0])

    def groups(self, tier, seed):
        rng = random.Random(seed * 472882027 + 26)
        gs = []

        def add(cls, desc=None, muts=None, args="file"):
            gs.append([{"case": "s%d" % len(gs), "class": cls, "desc": desc, "muts": muts or [], "args": args}])
        add("noargs", args="none")
        add("twoargs", elf_desc(), args="two")
        add("missing", args="missing")
        add("directory", args="dir")
        add("emptyfile", args="empty")
        add("textfile", args="text")
        add("valid", elf_desc())
        # valid programs entered at every one of their instructions (inside a basic block, at a branch, at a branch target)
        for i in range(1, 5):
            add("valid", elf_desc(entry=0x1000 + 4 * i))
        straight = [i_type(0x13, 0, r, 0, r) for r in range(1, 7)]
        loop = [i_type(0x13, 0, 1, 0, 3), i_type(0x13, 0, 1, 1, -1), b_type(0x63, 1, 1, 0, -4), i_type(0x13, 0, 2, 0, 1),
                j_type(0x6F, 0, -16), i_type(0x13, 0, 3, 0, 1)]
        for ws in (straight, loop):
            for i in range(len(ws)):
                add("valid", elf_desc(words=ws, entry=0x1000 + 4 * i))
        # the whole instruction alphabet of the configuration the tool lifts (RV64IMA): every mnemonic with fields from the edge
        # grids, eight words per program (branches and jumps have their own cases above and below), and every CSR
        # instruction with every CSR number of the grid (0, 1, 0x300, 0x7FF, 0x800, 0xC00, 0xFFF)
        alphabet = [t for t in T if valid_in(t, 64, "MA") and t["fmt"] not in ("B", "J") and t["op"] != 0x67]
        add("valid", elf_desc(words=[i_type(0x13, 0, 5, 0, 0), i_type(0x67, 0, 1, 5, 0x7FF), i_type(0x67, 0, 0, 1, -2048)]))  # jalr via registers
        for rnd in range(2 if tier == "quick" else 12):
            ts = alphabet[:]
            rng.shuffle(ts)
            for i in range(0, len(ts), 8):
                add("valid", elf_desc(words=[encode(t, rng, 64) for t in ts[i:i + 8]] + [i_type(0x13, 0, 0, 0, 0)]))
        for t in [t for t in alphabet if t["fmt"] == "CSR"]:
            add("valid", elf_desc(words=[i_type(t["op"], t["f3"], rng.choice([0, 5, 10]), rng.choice([0, 1, 31]), c) for c in CSRS]))
        add("tiny", elf_desc(words=[i_type(0x13, 0, 1, 0, 1)]))       # listing shorter than the view's minimum: ui or error
        add("valid", elf_desc(etype=3))
        add("valid", elf_desc(extra_sects=[{"name": ".data", "stype": 1, "flags": 3, "addr": a8(0x2000), "content": [1, 2, 3, 4], "size": 4}],
                              extra_progs=[{"ptype": 1, "vaddr": a8(0x2000), "content": [1, 2, 3, 4], "filesz": -1, "memsz": a8(16), "flags": 6}]))
        for t, c in ((0, "none"), (1, "rel"), (4, "core")):
            add(c, elf_desc(etype=t))
        add("noexec", elf_desc(text_flags=2))
        add("noexec", elf_desc(text_addr=0, entry=0))
        add("secoverlap", elf_desc(extra_sects=[{"name": ".t2", "stype": 1, "flags": 6, "addr": a8(0x1008), "content": wbytes(valid_words()[:2]), "size": 8}]))
        add("noload", elf_desc(load=False))
        add("segoverlap", elf_desc(extra_progs=[{"ptype": 1, "vaddr": a8(0x1004), "content": [0] * 8, "filesz": -1, "memsz": a8(8), "flags": 6}]))
        add("memszsmall", elf_desc(memsz=4))
        add("hugememsz", elf_desc(memsz=1 << 40))
        add("hugememsz", elf_desc(memsz=1 << 62))
        add("hugememsz", elf_desc(memsz=(1 << 64) - 1))
        # the header claims an enormous file size as well (the file itself stays short): sizes equal, memory a little larger,
        # memory just above the loader's limit
        for fs, ms in ((1 << 62, 1 << 62), (1 << 62, (1 << 62) + 4096), (1 << 40, 1 << 40), ((1 << 31), (1 << 31) + 8),
                       ((1 << 30) + 1, (1 << 30) + 1), (1 << 62, (1 << 62) + (1 << 30))):
            add("hugememsz", elf_desc(filesz=fs, memsz=ms))
        add("undecodable", elf_desc(words=valid_words()[:2] + [0xFFFFFFFF]))
        add("undecodable", elf_desc(words=[0]))
        add("truncword", elf_desc(text_bytes=wbytes(valid_words())[:-2]))
        add("truncword", elf_desc(text_bytes=[0x13]))
        add("entryoff", elf_desc(entry=0x1002))
        add("entryout", elf_desc(entry=0x5000))
        add("entryout", elf_desc(entry=0))
        add("jumpout", elf_desc(words=[j_type(0x6F, 0, 0x400), i_type(0x13, 0, 1, 0, 1)]))
        add("jumpmid", elf_desc(words=[b_type(0x63, 0, 1, 2, 6), i_type(0x13, 0, 1, 0, 1), i_type(0x13, 0, 1, 0, 1)]))
        # constant targets inside an instruction in every position: inside the jump itself, inside the previous / next / last
        # instruction, inside another jump, from a branch and from a jump
        A = i_type(0x13, 0, 1, 0, 1)
        for ws in ([j_type(0x6F, 0, 2)], [A, j_type(0x6F, 0, 2)], [A, j_type(0x6F, 0, -2)], [A, A, j_type(0x6F, 0, -6)],
                   [b_type(0x63, 0, 1, 2, 2), A], [A, b_type(0x63, 1, 1, 2, 2)], [j_type(0x6F, 0, 6), j_type(0x6F, 0, -4)],
                   [j_type(0x6F, 0, 10), A, A], [A, b_type(0x63, 0, 1, 2, 6), A], [j_type(0x6F, 1, 6), A]):
            add("jumpmid", elf_desc(words=ws))
            add("jumpmid", elf_desc(words=ws + [A, A]))
        add("wrongclass", elf_desc(), muts=[["put", 4, [1]]])
        add("bigendian", elf_desc(), muts=[["put", 5, [2]]])
        # systematic corruptions of a good file (layout of the harness writer: ehdr 64, phdr 56 at 64, data, shdrs 64 each)
        good = elf_desc(extra_sects=[{"name": ".data", "stype": 1, "flags": 3, "addr": a8(0x2000), "content": [1, 2, 3, 4], "size": 4}])
        flen = 64 + 56 + 20 + 20 + 4 + (1 + 6 + 6 + 10) + 64 * 4
        cuts = sorted({0, 1, 4, 15, 16, 17, 24, 32, 40, 52, 63, 64, 65, 64 + 55, 64 + 56, 64 + 57, 140, 160, 164, 187, 188, flen - 65,
                       flen - 64, flen - 63, flen - 1} | {64 + 56 + 47 + 64 * i for i in range(5)})
        for c in cuts:
            add("truncated", good, muts=[["trunc", c]])
        vals = {2: [[0, 0], [1, 0], [255, 255]], 4: [[0] * 4, [1, 0, 0, 0], [255] * 4], 8: [[0] * 8, [1] + [0] * 7, [255] * 8, [0, 0, 0, 0, 0, 1, 0, 0]]}
        eh_fields = [(16, 2), (18, 2), (20, 4), (24, 8), (32, 8), (40, 8), (48, 4), (52, 2), (54, 2), (56, 2), (58, 2), (60, 2), (62, 2)]
        ph_fields = [(0, 4), (4, 4), (8, 8), (16, 8), (24, 8), (32, 8), (40, 8), (48, 8)]
        sh_fields = [(0, 4), (4, 4), (8, 8), (16, 8), (24, 8), (32, 8), (40, 4), (44, 4), (48, 8), (56, 8)]
        for off, n in eh_fields:
            for v in vals[n]:
                add("field", good, muts=[["put", off, v]])
        for off, n in ph_fields:
            for v in vals[n]:
                add("field", good, muts=[["put", 64 + off, v]])
        shoff = flen - 64 * 4
        for si in (1, 2, 3):
            for off, n in sh_fields:
                for v in vals[n]:
                    if tier == "quick" and si == 2 and rng.random() < 0.5:
                        continue
                    add("field", good, muts=[["put", shoff + 64 * si + off, v]])
        for _ in range(60 if tier == "quick" else 3000):
            k = rng.choice([1, 1, 2, 4])
            add("flipped", good, muts=[["put", rng.randrange(flen), [rng.randrange(256)]] for _ in range(k)])
        return gs

    def run_case(self, c, tmp, patience=20):
        path = os.path.join(tmp, c["case"] + ".elf")
        if c["desc"] is not None:
            d = dict(c["desc"], path=path)
            core.run_harness("elf", [d])
            data = bytearray(open(path, "rb").read())
            for m in c["muts"]:
                if m[0] == "trunc":
                    data = data[: m[1]]
                else:
                    off = m[1]
                    if off + len(m[2]) <= len(data):
                        data[off: off + len(m[2])] = bytes(m[2])
            open(path, "wb").write(bytes(data))
        a = c["args"]
        if a == "none":
            argv = [MLT]
        elif a == "two":
            argv = [MLT, path, path]
        elif a == "missing":
            argv = [MLT, os.path.join(tmp, "nosuchfile")]
        elif a == "dir":
            argv = [MLT, tmp]
        elif a == "empty":
            open(path, "wb").close()
            argv = [MLT, path]
        elif a == "text":
            open(path, "w").write("hello world, this is not an ELF file\n")
            argv = [MLT, path]
        else:
            argv = [MLT, path]
        outcome, code, tail = run_pty(argv, timeout=patience)
        try:
            os.unlink(path)
        except OSError:
            pass
        return {"case": c["case"], "class": c["class"], "outcome": outcome, "exit": code, "tail": tail, "muts": c["muts"], "args": a}

    def record(self, groups):
        core.build_harness()
        build_binary()
        tmp = tempfile.mkdtemp(prefix="verif-c26-")
        try:
            cases = [g[0] for g in groups]
            with cf.ThreadPoolExecutor(8) as ex:
                evs = list(ex.map(lambda c: self.run_case(c, tmp), cases))
        finally:
            shutil.rmtree(tmp, ignore_errors=True)
        if any(e["outcome"] == "timeout" for e in evs):
            # a timeout is infrastructure trouble unless it repeats
            for i, e in enumerate(evs):
                if e["outcome"] == "timeout":
                    tmp = tempfile.mkdtemp(prefix="verif-c26-")
                    try:
                        # e.g. a corrupted memory size just below the loader's 1 GiB limit: start-up allocates and
                        # copies it (20 s and 2 GB measured on a loaded machine) but does terminate
                        evs[i] = self.run_case(cases[i], tmp, patience=300)
                    finally:
                        shutil.rmtree(tmp, ignore_errors=True)
                    if evs[i]["outcome"] == "timeout":
                        with open(os.path.join(core.OUT, "failed-C26-timeout.json"), "w") as f:
                            json.dump(dict(cases[i], seen=evs[i]), f)
                        raise core.Infra("start-up run timed out twice (case kept in out/failed-C26-timeout.json): "
                                         + json.dumps(cases[i])[:300])
        return [[e] for e in evs]
