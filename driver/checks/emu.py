"""C03 C04 (RV64IMA programs through the real emulator, judged by TraceEmu / RV!Exec) and the behavioural half of
C05 (original vs reordered block run by the real emulator)."""
import random, re
from ..runner import Check
from .. import core, gen_rv
from ..gen_rv import r_type, i_type, s_type, b_type, u_type, j_type, word_bytes, T, encode, valid_in
from . import mem as memchk

XRE = re.compile(r"^x\d+$")
IPKEY = "#r:w:ip"
CODE_BASES = [[0, 16, 0, 0, 0, 0, 0, 0], [0, 0, 0, 128, 0, 0, 0, 0], [0, 0, 1, 0, 1, 0, 0, 0], [0, 0, 0, 0, 0, 0, 0, 64]]

EMU_LEVEL = ("Trace validation of the real emulator, built with the memory layering of cmd/mltwist (read-only image under a "
             "sparse layer) and a recording state provider: after every Step TLC compares the reported reads/writes and "
             "the complete register file with RV!Exec run on the specification's own machine state, checks that the "
             "provider is only asked for never-known state and never twice, and at the end compares all memory.")
EMU_NOTE = ("Trusted: TLC, Json module, spec/RV.tla (transcribed from the ISA manual), BV/ExprIR, the harness (recording "
            "provider, register/memory dump). Programs: TLC-generated overlapping store/load patterns realised as "
            "sb..sd/lb..ld code, one program per RV64IMA mnemonic, seeded random programs with loops and branches.")


def le8(v):
    return [(v >> (8 * i)) & 255 for i in range(8)]


def decorate_csr(ev):
    if ev.get("op") != "step":
        return ev
    keys = {a["key"] for a in ev["asks"] if a["k"] == "r"} | {x["key"] for x in ev["rep"]["rl"]} | {x["key"] for x in ev["rep"]["rs"]}
    cs = [k for k in keys if not XRE.match(k) and k != IPKEY]
    ev["csrkey"] = cs[0] if len(cs) == 1 else ("" if not cs else "?")
    return ev


class EmuCheck(Check):
    family = "emu"
    module = "TraceEmu"
    level_text, level_note = EMU_LEVEL, EMU_NOTE
    technique = "TLA+ emulator/ISA specification (TraceEmu over RV!Exec); TLC trace validation of recorded emulator steps"
    trusted = ["Go harness: recording state provider, register/memory dump, program image builder", "TLC, CommunityModules Json",
               "spec/RV.tla transcription of the ISA manual"]
    mc = [("Mem_MC", "Mem_MC")]
    whys = None
    constants = 'CONSTANT Aspect = "state"\n'

    def stateful(self):
        return True

    def filter_bad(self, bad):
        if self.whys is None:
            return bad
        return [b for b in bad if b["why"] in self.whys]

    def record(self, groups):
        evg = Check.record(self, groups)
        return [[decorate_csr(e) for e in evs] for evs in evg]

    def program_group(self, gid, words, base, regs0, seed, steps, data=None, ip=0, entry=0, variant=64, exts="MA", moves=None, run=1):
        bs = []
        for w in words:
            bs += word_bytes(w)
        g = [{"case": gid, "op": "emunew", "mode": "rv", "variant": variant, "exts": exts, "base": base,
              "image": [{"off": 0, "bytes": bs}], "data": data or [], "entry": entry, "ip": ip,
              "regs0": [{"key": k, "val": v} for k, v in sorted(regs0.items())], "seed": seed, "ins": [], "moves": moves or [],
              "bmoves": [], "run": run}]
        for _ in range(steps):
            g.append({"case": gid, "op": "step"})
        g.append({"case": gid, "op": "final", "run": run})
        return g

    # ---- program generators (shapes only) ---------------------------------
    def access_programs(self, rng, tier, seed):
        """TLC-generated overlapping store patterns (Mem_MC) as sb/sh/sw/sd code + loads of every width"""
        n, widths, k = (8, [1, 2, 4], 2) if tier == "quick" else (10, [1, 2, 4, 8], 3)
        hs, _ = core.tlc_generate("Mem_MC", memchk.gen_cfg(n, widths, 0, k), self.pid + "-gen")
        sim, _ = core.tlc_generate("Mem_MC", memchk.gen_cfg(10, [1, 2, 4, 8], 0, 4), self.pid + "-sim",
                                   simulate={"num": 60 if tier == "quick" else 600, "depth": 5}, seed=seed)
        hs = [h for h in hs if h] + memchk.maximal(sim)
        if tier == "thorough":
            hs = [h for i, h in enumerate(hs) if len(h) < 3 or i % 4 == 0]
        SW = {1: 0, 2: 1, 4: 2, 8: 3}
        LW = {1: [0, 4], 2: [1, 5], 4: [2, 6], 8: [3]}
        out = []
        for i, h in enumerate(hs):
            words = []
            for o in h:
                words.append(s_type(0x23, SW[o["w"]], rs1=5, rs2=rng.choice([6, 7, 0, 5]), imm=o["a"]))
            nload = 4 if tier == "quick" else 8
            for _ in range(nload):
                w = rng.choice([1, 2, 4, 8])
                off = rng.randrange(0, 17 - w) - 2
                words.append(i_type(0x03, rng.choice(LW[w]), rd=rng.choice([8, 9, 6]), rs1=5, imm=off))
            base = rng.choice(CODE_BASES)
            basev = sum(b << (8 * j) for j, b in enumerate(base))
            win = basev + 0x800 + rng.randrange(0, 3)
            # a read-only data block of the image covers part of the window (reads straddle image and written memory)
            data = []
            c = rng.random()
            if c < 0.6:
                lo = rng.randrange(0, 12)
                ln = rng.randrange(1, 10)
                data = [{"off": win - basev + lo, "bytes": [(0xC0 + 3 * j + i) % 256 for j in range(ln)]}]
            regs0 = {"x5": le8(win)}
            if rng.random() < 0.5:
                regs0["x6"] = le8(rng.getrandbits(64))
            out.append(self.program_group("a%d" % i, words, base, regs0, rng.randrange(1 << 30), len(words), data=data))
        return out

    def writeback_programs(self, rng, tier):
        """read original image data, overwrite it with another value, write the original back (same range, a part,
        an overlapping range), read again: a byte reads as its most recent write even when that equals the image"""
        SW = {1: 0, 2: 1, 4: 2, 8: 3}
        LD = {1: 4, 2: 5, 4: 6, 8: 3}       # lbu lhu lwu ld
        out, k = [], 0
        for w in (1, 2, 4, 8):
            for w2, d2 in ((w, 0), (1, 0), (1, w - 1), (w, 1), (max(1, w // 2), 0)):
                for off in (0, 3):
                    base = CODE_BASES[k % len(CODE_BASES)]
                    basev = sum(b << (8 * j) for j, b in enumerate(base))
                    win = basev + 0x800
                    data = [{"off": 0x800, "bytes": [(0x31 + 7 * j + k) % 256 for j in range(24)]}]
                    words = [i_type(0x03, LD[w2], rd=6, rs1=5, imm=off + d2),            # x6 := original bytes
                             s_type(0x23, SW[w], rs1=5, rs2=7, imm=off),                # overwrite with x7
                             i_type(0x03, LD[8], rd=8, rs1=5, imm=0),
                             s_type(0x23, SW[w2], rs1=5, rs2=6, imm=off + d2),          # write the original back
                             i_type(0x03, LD[8], rd=9, rs1=5, imm=0),
                             i_type(0x03, LD[w], rd=10, rs1=5, imm=off),
                             i_type(0x03, LD[1], rd=11, rs1=5, imm=off + d2)]
                    regs0 = {"x5": le8(win), "x7": le8(rng.getrandbits(64) | 1)}
                    out.append(self.program_group("wb%d" % k, words, base, regs0, rng.randrange(1 << 30), len(words), data=data))
                    k += 1
        return out

    def alias_programs(self, rng, tier):
        """every three-register instruction (ALU, M, atomics) and every store / branch with all patterns of equal registers
        (rd = rs1 = rs2, rs1 = rs2, rd = rs1, rd = rs2, all different); register values are full 64-bit numbers (as data
        AND as addresses above 4 GiB) supplied by the provider or preset"""
        out, k = [], 0
        pats = [(6, 6, 6), (7, 6, 6), (6, 6, 7), (6, 7, 6), (5, 6, 7), (0, 6, 6), (6, 0, 6)]
        for t in T:
            if not valid_in(t, 64, "MA") or t["fmt"] not in ("R", "AMO", "S", "B"):
                continue
            for (rd, rs1, rs2) in pats:
                if t["fmt"] == "AMO":
                    w = r_type(t["op"], t["f3"], (t["f7"] << 2) | rng.randrange(4), rd, rs1, 0 if t["name"].startswith("lr") else rs2)
                elif t["fmt"] == "R":
                    w = r_type(t["op"], t["f3"], t["f7"], rd, rs1, rs2)
                elif t["fmt"] == "S":
                    w = s_type(t["op"], t["f3"], rs1, rs2, rng.choice([0, 8, -8]))
                else:
                    w = b_type(t["op"], t["f3"], rs1, rs2, 8)
                base = CODE_BASES[k % len(CODE_BASES)]
                regs0 = {}
                if k % 3 == 0:
                    regs0["x6"] = le8(0x1_0000_2000 + 8 * (k % 50))
                elif k % 3 == 1:
                    regs0["x6"] = le8(rng.getrandbits(64) & ~7)
                out.append(self.program_group("al%d" % k, [w, 0x00000013, 0x00000013], base, regs0, rng.randrange(1 << 30), 2))
                k += 1
        return out

    def mnemonic_programs(self, rng, tier):
        out = []
        reps = 1 if tier == "quick" else 6
        k = 0
        for t in T:
            if not valid_in(t, 64, "MA"):
                continue
            for _ in range(reps):
                w = encode(t, rng, 64)
                base = rng.choice(CODE_BASES)
                regs0 = {}
                for r in (1, 2, 5, 10, 31):
                    if rng.random() < 0.5:
                        regs0["x%d" % r] = le8(rng.choice([0, 1, (1 << 64) - 1, 1 << 63, rng.getrandbits(64), rng.getrandbits(12)]))
                out.append(self.program_group("m%d" % k, [w, 0x00000013], base, regs0, rng.randrange(1 << 30), 2))
                k += 1
        return out

    def random_programs(self, rng, tier):
        out = []
        nprog, steps = (30, 30) if tier == "quick" else (400, 120)
        R = [0, 1, 2, 3, 4, 5, 6, 7]
        for pi in range(nprog):
            n = rng.randrange(6, 20)
            base = rng.choice(CODE_BASES)
            basev = sum(b << (8 * j) for j, b in enumerate(base))
            win = basev + 0x1000
            words = []
            for i in range(n):
                c = rng.random()
                rd, rs1, rs2 = rng.choice(R), rng.choice(R), rng.choice(R)
                if c < 0.3:
                    words.append(r_type(rng.choice([0x33, 0x3B]), rng.choice([0, 1, 5, 4, 6, 7, 2, 3]) if rng.random() < 0.6 else 0,
                                        rng.choice([0, 0, 1, 0x20]), rd, rs1, rs2))
                elif c < 0.5:
                    words.append(i_type(rng.choice([0x13, 0x1B]), rng.choice([0, 0, 2, 3, 4, 6, 7]) if rng.random() < 0.7 else 0,
                                        rd, rs1, rng.choice([0, 1, -1, 5, 2047, -2048, rng.randrange(-64, 64)])))
                elif c < 0.58:
                    words.append(i_type(0x13, rng.choice([1, 5]), rd, rs1, rng.randrange(64) | rng.choice([0, 0x400])))
                elif c < 0.7:      # store / load through x5 (the data window)
                    if rng.random() < 0.5:
                        words.append(s_type(0x23, rng.randrange(4), rs1=5, rs2=rs2, imm=rng.randrange(0, 24)))
                    else:
                        words.append(i_type(0x03, rng.randrange(7), rd if rd != 5 else 6, 5, rng.randrange(0, 24)))
                elif c < 0.82:     # branch inside the program (forward and backward)
                    tgt = rng.randrange(0, n) * 4
                    words.append(b_type(0x63, rng.choice([0, 1, 4, 5, 6, 7]), rs1, rs2, tgt - 4 * i))
                elif c < 0.86:
                    tgt = rng.randrange(0, n + 1) * 4
                    words.append(j_type(0x6F, rng.choice([0, 1]), tgt - 4 * i))
                elif c < 0.9:
                    words.append(u_type(rng.choice([0x37, 0x17]), rd if rd != 5 else 1, rng.getrandbits(20)))
                elif c < 0.95:     # atomics on the window
                    f5 = rng.choice([0, 1, 4, 8, 12, 16, 20, 24, 28, 2, 3])
                    words.append(r_type(0x2F, rng.choice([2, 3]), f5 << 2, rd if rd != 5 else 6, 5, 0 if f5 == 2 else rs2))
                else:
                    words.append(i_type(0x73, rng.choice([1, 2, 3, 5, 6, 7]), rd if rd != 5 else 0, rs1, rng.choice([0x300, 0x340, 0xC00])))
            # keep x5 pointing at the window: no instruction above writes x5 except by accident of rd=5; filter those
            words = [w if ((w >> 7) & 31) != 5 or (w & 0x7F) in (0x23, 0x63) else (w & ~(31 << 7)) | (6 << 7) for w in words]
            regs0 = {"x5": le8(win & ~7)}
            for r in R[1:]:
                if r != 5 and rng.random() < 0.5:
                    regs0["x%d" % r] = le8(rng.choice([0, 1, (1 << 64) - 1, 1 << 63, rng.getrandbits(64), rng.getrandbits(8)]))
            data = [{"off": 0x1000 + 4, "bytes": [(7 * j + pi) % 256 for j in range(rng.randrange(1, 12))]}] if rng.random() < 0.6 else []
            out.append(self.program_group("r%d" % pi, words, base, regs0, rng.randrange(1 << 30), steps, data=data))
        return out

    def all_groups(self, tier, seed):
        rng = random.Random(seed * 141650939 + 3)
        return (self.access_programs(rng, tier, seed) + self.writeback_programs(rng, tier) + self.alias_programs(rng, tier)
                + self.mnemonic_programs(rng, tier) + self.random_programs(rng, tier))

    def nontrivial_key(self, group, events):
        steps = [e for e in events if e["op"] == "step" and not e["err"] and not e["panic"]]
        if len(steps) < 2:
            return None
        return repr((group[0]["image"], group[0]["regs0"], group[0]["data"], group[0]["seed"]))


C04_WHYS = {"askknownreg", "askknownmem", "asktwice"}


class C03(EmuCheck):
    pid = "C03"
    rule = ("programs (RV64IMA, code base at 4 addresses): (a) every distinct abstract memory state reachable with <= K "
            "overlapping stores (TLC BFS over Mem_MC, plus -simulate) realised as sb/sh/sw/sd through a base register, "
            "followed by loads of every width at seeded offsets, the window partly covered by a read-only data block of the "
            "image (reads straddle image and written memory); (b) one program per mnemonic; (c) seeded random programs of "
            "6-20 instructions with forward/backward branches, jumps (also out of the code), W-instructions, atomics, CSR "
            "accesses, run for 30-120 steps; initial state: some registers preset, the rest supplied by a recording "
            "provider; judged after every step: reported register/memory reads and writes with values, the whole register "
            "file, failure iff ip is not at a decoded instruction, no panic; at the end all memory; non-trivial = >= 2 "
            "successful steps; distinct by (image, presets, data, seed)")
    assumptions = ["programs do not modify their own code", "memory accesses do not wrap around the address space",
                   "the values supplied by the provider are the initial contents of the never-known state"]

    def filter_bad(self, bad):
        return [b for b in bad if b["why"] not in C04_WHYS]

    def groups(self, tier, seed):
        return self.all_groups(tier, seed)


class C04(EmuCheck):
    pid = "C04"
    constants = 'CONSTANT Aspect = "asks"\n'
    whys = C04_WHYS | {"finalmem", "finalregs", "panic"}
    rule = ("the programs of C03 (overlapping stores/loads over a window partly backed by the read-only image, one program "
            "per mnemonic, random programs with loops); every question the emulator puts to the recording provider is "
            "checked against the specification's knowledge: the register / every byte of the range has never been known "
            "(not preset, not in the image, not written, not supplied before) and is not asked twice (also within one "
            "step); that later reads observe the supplied values is the state agreement after every step; "
            "non-trivial = program in which the provider was asked at least once and >= 2 steps succeeded; distinct as C03")
    assumptions = C03.assumptions

    def nontrivial_key(self, group, events):
        if not any(e["op"] == "step" and e["asks"] for e in events):
            return None
        return EmuCheck.nontrivial_key(self, group, events)

    def groups(self, tier, seed):
        return self.all_groups(tier, seed)


from . import deps as depschk


class C05(EmuCheck):
    pid = "C05"
    mc = [("Deps_MC", "Deps_MC")]
    mc_thorough = [("Deps_MC", "Deps_MC_form"), ("Deps_MC", "Deps_MC_len4")]
    proofs = ["DepsProof"]      # unbounded block length: a move within the bounds keeps every conflicting pair ordered (TLAPS)
    whys = {"behaviour", "panic", "regs", "noerror", "steperror", "finalregs", "finalmem"}
    level_text = ("The reordering state machine (spec/Deps.tla) is model-checked by TLC: on every block of <= 3-4 abstract "
                  "instructions and every admitted move history, conflicting pairs keep their order and the symbolic "
                  "meaning of the block is unchanged. TLC generates one (block, move history) per distinct reachable "
                  "order; the harness builds the block from executable synthetic instructions, applies the moves through "
                  "Block.Move and runs the original and the reordered block through the real emulator from the same "
                  "recorded initial state; TLC validates every step against the meaning of the effects (ExprIR!Eval) and "
                  "requires equal final registers, memory and control transfer. Histories in which the abstract model sees "
                  "a reordered conflicting pair (TraceDeps) are run first.")
    level_note = depschk.DEPS_NOTE + " Running a block = stepping from its first address until the instruction pointer leaves it, at most Num() steps."
    technique = ("TLA+ state machine (Deps) model-checked with TLC; TLC-generated move histories replayed into the real code; "
                 "behaviour of original and reordered block compared through the real emulator under TLC trace validation")
    rule = ("blocks: every block of <= 3 (thorough: also 4 over a reduced alphabet) abstract instructions over the "
            "16-instruction alphabet (register/memory reads and writes, fence, system call, atomic, ip-writing non-jump, "
            "terminating conditional jump) x every order reachable by moves the specification admits (quick tier: a sixth of them, rotating with the seed), each history extended "
            "by further seeded (from, to) requests; synthetic instructions compute injective-looking hashes of what they "
            "read, so a reordered conflict changes the final state; multi-block codes with block moves; original and "
            "reordered code are run by the real emulator from the same provider-supplied state (2 seeds); judged: every "
            "step = meaning of the effects, final registers + memory + ip equal; non-trivial = history with an accepted "
            "order-changing move; distinct by (block, accepted moves)")
    assumptions = ["instruction semantics are position independent except for the instruction pointer (the tool lifts at the original address)",
                   "2 initial states per history (provider seeds)"]

    def nontrivial_key(self, group, events):
        new2 = [e for e in events if e["op"] == "emunew" and e["run"] == 2]
        if not new2 or not any(new2[0]["movesok"]):
            return None
        return repr((group[0]["ins"], group[0]["image"], new2[0]["moves"], new2[0]["bmoves"], new2[0]["movesok"]))

    def real_blocks(self, rng, tier):
        """straight-line blocks of real instructions over x5..x9 and one data window (x5 = base), each followed by a
        terminating branch; random move requests; original and reordered block run from the same state"""
        out = []
        R = [6, 7, 8, 9]
        n = 120 if tier == "quick" else 5000
        for bi in range(n):
            words = []
            for _ in range(rng.randrange(3, 8)):
                c = rng.random()
                rd, rs1, rs2 = rng.choice(R), rng.choice(R + [5, 0]), rng.choice(R + [0])
                if c < 0.30:
                    words.append(i_type(0x13, rng.choice([0, 4, 6, 7]), rd, rs1, rng.randrange(-8, 64)))
                elif c < 0.50:
                    words.append(r_type(0x33, rng.choice([0, 4, 6, 7]), rng.choice([0, 0, 1]), rd, rs1, rs2))
                elif c < 0.62:
                    words.append(i_type(0x03, rng.choice([0, 1, 2, 3, 4]), rd, 5, rng.choice([0, 4, 8, 12])))
                elif c < 0.76:
                    words.append(s_type(0x23, rng.choice([0, 1, 2, 3]), rs1=rng.choice([5, 5, 5] + R), rs2=rs2, imm=rng.choice([0, 4, 8, 12])))
                elif c < 0.80:
                    words.append(u_type(0x17, rd, rng.getrandbits(20)))
                elif c < 0.85:
                    words.append(r_type(0x2F, 3, rng.choice([0, 1, 4, 8]) << 2, rd, 5, rs2))
                elif c < 0.89:
                    words.append(0x0FF0000F)                       # fence
                elif c < 0.93:
                    words.append(i_type(0x73, rng.choice([1, 2]), rd, rs1, 0x340))
                elif c < 0.96:
                    words.append(b_type(0x63, rng.choice([0, 1]), rs1, rs2, 4))   # branch to the next instruction
                else:
                    words.append(i_type(0x13, 0, 5, 5, 8))         # moves the data window
            words.append(b_type(0x63, rng.choice([0, 1, 4]), rng.choice(R), rng.choice(R), -4 * len(words)))   # back to the block start
            nins = len(words)
            moves = [[0, rng.randrange(nins), rng.randrange(nins)] for _ in range(rng.choice([2, 4, 6]))]
            base = rng.choice(CODE_BASES)
            basev = sum(b << (8 * j) for j, b in enumerate(base))
            regs0 = {"x5": le8((basev + 0x800) & ~7)}
            seed = rng.randrange(1 << 30)
            data = [{"off": 0x800 + 4, "bytes": [(5 * j + bi) % 256 for j in range(6)]}] if rng.random() < 0.5 else []
            gid = "rb%d" % bi
            g = self.program_group(gid, words, base, regs0, seed, nins, data=data, run=1)
            g += self.program_group(gid, words, base, regs0, seed, nins, data=data, moves=moves, run=2)
            out.append(g)
        # memory accesses through one base register at DIFFERENT offsets that still touch the same bytes (a wide access
        # over a narrow one, misaligned neighbours), and a store hidden behind a closer store to another offset: every
        # order of the two / three accesses is requested
        LD = {1: (0, 4), 2: (1, 5), 4: (2, 6), 8: (3,)}           # width -> load funct3 (signed, unsigned)
        ST = {1: 0, 2: 1, 4: 2, 8: 3}
        combos = []
        for ws in (1, 2, 4, 8):
            for wl in (1, 2, 4, 8):
                for os_ in (0, 4, 8):
                    for ol in range(max(0, os_ - wl + 1), os_ + ws):
                        if ol != os_:
                            combos.append((ws, wl, os_, ol))
        rng.shuffle(combos)
        for ci, (ws, wl, os_, ol) in enumerate(combos[:40 if tier == "quick" else len(combos)]):
            st = s_type(0x23, ST[ws], rs1=5, rs2=7, imm=os_)
            ld = i_type(0x03, rng.choice(LD[wl]), 6, 5, ol)
            st2 = s_type(0x23, ST[wl], rs1=5, rs2=8, imm=ol)
            far = s_type(0x23, 2, rs1=5, rs2=9, imm=os_ + 16)
            shapes = [([st, ld], [[0, 1, 0]]), ([ld, st], [[0, 1, 0]]), ([st, st2], [[0, 0, 1]]),
                      ([st, far, i_type(0x03, rng.choice(LD[ws]), 6, 5, os_)], [[0, 2, 0]]),
                      ([st2, far, ld], [[0, 2, 0], [0, 0, 2]])]
            for si, (ws_, moves) in enumerate(shapes):
                if tier == "quick" and (ci + si) % 2:
                    continue
                words = [i_type(0x13, 0, 7, 0, 0x5A5), i_type(0x13, 0, 8, 0, 0x3C3)] + ws_
                k0 = 2
                moves = [[0, f + k0, t + k0] for _, f, t in moves]
                words.append(b_type(0x63, 1, 6, 0, -4 * len(words)))
                base = rng.choice(CODE_BASES)
                basev = sum(b << (8 * j) for j, b in enumerate(base))
                regs0 = {"x5": le8((basev + 0x800) & ~7)}
                seed = rng.randrange(1 << 30)
                gid = "ov%d_%d" % (ci, si)
                g = self.program_group(gid, words, base, regs0, seed, len(words), run=1)
                g += self.program_group(gid, words, base, regs0, seed, len(words), moves=moves, run=2)
                out.append(g)
        return out

    def abs_group(self, gid, ins, moves, bmoves, seed, nsteps, entry=0, ip=0):
        g = []
        for run in (1, 2):
            g.append({"case": gid, "op": "emunew", "mode": "abs", "variant": 64, "exts": "MA", "base": [0, 16, 0, 0, 0, 0, 0, 0],
                      "image": [], "data": [], "entry": entry, "ip": ip, "regs0": [], "seed": seed, "ins": ins,
                      "moves": moves if run == 2 else [], "bmoves": bmoves if run == 2 else [], "run": run})
            for _ in range(nsteps):
                g.append({"case": gid, "op": "step"})
            g.append({"case": gid, "op": "final", "run": run})
        return g

    def groups(self, tier, seed):
        rng = random.Random(seed * 179424673 + 5)
        helper = depschk.C05Abstract()
        hs = helper.histories(3, depschk.ALLK, "C05-gen") + helper.histories(3, depschk.SAMEKEY, "C05-genk")
        if tier == "thorough":
            hs += helper.histories(4, [1, 2, 3, 6, 7, 9, 10, 12, 13, 14], "C05-gen4")
        self.exhaustive = tier == "thorough"
        if tier == "quick":
            # quick tier: a sixth of the reachable orders (rotating with the seed); thorough: all of them
            hs = [h for i, h in enumerate(hs) if (i + seed) % 6 == 0]
        # abstract pre-pass on the real code: which histories reorder a conflicting pair?
        dg = []
        for i, h in enumerate(hs):
            g = helper.single_block_group(rng, "b%d" % i, h)
            n = len(h["kinds"])
            extra = [(f, t) for f in range(n) for t in range(n) if f != t]
            rng.shuffle(extra)
            for f, t in extra[:3]:
                g.append({"case": g[0]["case"], "op": "move", "block": 0, "from": f, "to": t})
            dg.append(g)
        core.build_harness()
        evg = helper.record(dg)
        bad, _ = helper.validate(evg, "C05-abs")
        flagged = {b["group"] for b in helper.filter_bad(bad)}
        self.abstract_flagged = len(flagged)
        order = sorted(range(len(dg)), key=lambda i: (i not in flagged, i))
        gs = []
        for i in order:
            g = dg[i]
            moves = [[0, c["from"], c["to"]] for c in g[1:]]
            if not moves:
                continue
            n = len(g[0]["ins"])
            for s in range(2 if (tier == "thorough" or i in flagged) else 1):
                gs.append(self.abs_group("h%d_%d" % (i, s), g[0]["ins"], moves, [], rng.randrange(1 << 30), n))
        # blocks of real RV64IMA instructions: seeded move requests, behaviour of original vs reordered block
        gs += self.real_blocks(rng, tier)
        # multi-block codes: instruction moves and block moves
        multi = [h for h in hs if len(h["kinds"]) >= 2]
        for i in range(60 if tier == "quick" else 2000):
            parts = [rng.choice(multi) for _ in range(rng.choice([2, 3]))]
            ins, a, starts, moves = [], 0, [], []
            for bi, h in enumerate(parts):
                starts.append(a)
                bl, a2 = depschk.block_ins(h["kinds"], a, target=starts[0])
                ins += bl
                a = a2
                if depschk.KINDS[h["kinds"][-1]]["jk"] != "cond":
                    a += rng.choice([2, 4, 8])
                moves += [[bi, f, t] for f, t in h["moves"]]
            rng.shuffle(moves)
            # keep the per-block order of the generated histories
            seen, ordered = {}, []
            per = {bi: [m for m in [[b, f, t] for b, f, t in sum(([[bi2, f, t] for f, t in parts[bi2]["moves"]] for bi2 in range(len(parts))), [])] if m[0] == bi] for bi in range(len(parts))}
            for m in moves:
                k = seen.get(m[0], 0)
                ordered.append(per[m[0]][k])
                seen[m[0]] = k + 1
            nb = len(parts)
            bmoves = [[rng.randrange(nb), rng.randrange(nb)] for _ in range(rng.choice([1, 2, 3]))]
            start = rng.randrange(nb)
            gs.append(self.abs_group("m%d" % i, ins, ordered, bmoves, rng.randrange(1 << 30),
                                     len(parts[start]["kinds"]), entry=starts[start], ip=starts[start]))
        return gs
