"""C17: interval sets obey set algebra (TraceIntv, spec/Interval.tla)."""
import itertools, random
from ..runner import Check


def normal(s):
    out = []
    for x in sorted(s):
        if out and out[-1][1] == x:
            out[-1][1] = x + 1
        else:
            out.append([x, x + 1])
    return out


class C17(Check):
    pid = "C17"
    family = "intv"
    module = "TraceIntv"
    mc = [("Interval_MC", "Interval_MC")]
    exhaustive = True
    level_text = ("Exhaustive small scope: every list of <= 3 non-empty intervals over a small universe for NewMap and every "
                  "pair of subsets of the universe for union/difference/intersection is run through the real code at "
                  "several integer types/offsets; TLC validates every result against the set algebra of spec/Interval.tla "
                  "(model-checked itself in Interval_MC).")
    level_note = "Trusted: TLC, Json module, harness offset arithmetic. Universe of 6-8 integers; 4 unsigned and 2 signed bases."
    technique = "TLA+ set-algebra specification as oracle; exhaustive small-scope inputs; TLC trace validation"
    trusted = ["Go harness: base offset arithmetic", "TLC, CommunityModules Json"]
    rule = ("NewMap: all lists of <= 3 non-empty intervals over 0..U (unsorted, overlapping, adjacent, nested, duplicated); "
            "MapUnion/MapComplement/MapIntersect: all pairs of subsets of 0..U-1 given as their interval lists; at element "
            "types uint64 (bases 0, 2^32-3, 2^63-4, 2^64-64) and int64 (bases -5, 0); long maps of 17-40 intervals against "
            "short straddling ones and against each other; expected = normal form of the set; "
            "non-trivial = at least one non-empty operand; distinct by (op, operands, type, base)")
    assumptions = ["intervals do not wrap the integer type"]

    def stateful(self):
        return True             # sessions: the events of a group go through one harness process, in order

    def nontrivial_key(self, group, events):
        c = group[0]
        if c["op"] == "snew":
            return repr((c["init"], c["t"], c["base"], [(o["op"], o["x"], o["y"]) for o in group[1:]])) if any(c["init"]) else None
        if not c["a"] and not c.get("b"):
            return None
        return repr((c["op"], c["a"], c.get("b"), c["t"], c["base"]))

    def groups(self, tier, seed):
        rng = random.Random(seed * 86028121 + 17)
        u = 5 if tier == "quick" else 7
        gs = []
        k = 0

        def tb():
            return rng.choice([("u64", 0), ("u64", 1), ("u64", 2), ("u64", 3), ("i64", -5), ("i64", 0)])
        ivs = [[a, b] for a in range(u + 1) for b in range(a + 1, u + 1)]
        lists = [[]] + [[i] for i in ivs] + [[i, j] for i in ivs for j in ivs]
        trip = [[i, j, m] for i in ivs for j in ivs for m in ivs]
        if tier == "quick":
            rng.shuffle(trip)
            trip = trip[:1500]
        for lst in lists + trip:
            t, b = tb()
            gs.append([{"case": "n%d" % k, "op": "newmap", "t": t, "base": b, "a": lst, "b": []}])
            k += 1
        subsets = []
        for bits in range(1 << (u + 1)):
            subsets.append(normal({i for i in range(u + 1) if bits >> i & 1}))
        for a in subsets:
            for b in subsets:
                for op in ("union", "complement", "intersect"):
                    t, bs = tb()
                    gs.append([{"case": "s%d" % k, "op": op, "t": t, "base": bs, "a": a, "b": b}])
                    k += 1
        # long maps (17-40 intervals: beyond any small-size fast path) against short ones straddling their intervals'
        # boundaries, and against each other, in both argument orders
        def longmap(n, step, off, ln):
            return [[step * i + off, step * i + off + ln] for i in range(n)]
        for j in range(40 if tier == "quick" else 600):
            n = rng.choice([17, 18, 20, 33, 40])
            step = rng.choice([4, 6, 10])
            big = longmap(n, step, rng.randrange(0, 3), rng.randrange(1, step - 1))
            lo = rng.randrange(0, step * n - 2)
            short = normal(set(range(lo, min(step * n + 3, lo + rng.choice([1, 2, step - 1, step, step + 3, 3 * step])))) |
                           set(rng.sample(range(step * n + 3), rng.choice([0, 1, 3]))))
            other = longmap(rng.choice([17, 25]), rng.choice([5, 7]), rng.randrange(0, 4), rng.randrange(1, 4))
            for a, b in ((big, short), (short, big), (big, other), (other, big), (big, big)):
                for op in ("union", "complement", "intersect"):
                    t, bs = rng.choice([("u64", 0), ("u64", 1), ("u64", 2), ("i64", -5), ("i64", 0)])   # room for 400 integers
                    gs.append([{"case": "L%d" % k, "op": op, "t": t, "base": bs, "a": a, "b": b}])
                    k += 1
        # sessions: the Map values stay alive; every operation appends its result and all maps of the session are
        # re-read after it - an operation changes neither its arguments nor any earlier result (a later operation on a
        # changed argument would be wrong too: results are fed into further operations)
        for a in subsets:
            for b in subsets:
                if tier == "quick" and rng.random() < 0.6:
                    continue
                t, bs = tb()
                gid = "q%d" % k
                k += 1
                g = [{"case": gid, "op": "snew", "t": t, "base": bs, "a": [], "b": [], "init": [a, b], "x": 0, "y": 0}]
                plan = [("sunion", 0, 1), ("sintersect", 0, 1), ("scomplement", 0, 1), ("sunion", 1, 0), ("scomplement", 1, 0),
                        ("sintersect", 0, 2), ("scomplement", 2, 1), ("sunion", 3, 4), ("sintersect", 6, 5), ("sunion", 4, 6)]
                rng.shuffle(plan)
                n = 2
                for op, x, y in plan[:6]:
                    g.append({"case": gid, "op": op, "t": t, "base": bs, "a": [], "b": [], "init": [], "x": x % n, "y": y % n})
                    n += 1
                gs.append(g)
        return gs
