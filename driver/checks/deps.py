"""C05-C08: the code model (basic blocks, dependencies, moves) judged by TraceDeps (spec/Deps.tla)."""
import random, itertools, json
from ..runner import Check
from .. import core

# mirror of Deps_MC!Kinds (the abstract instruction alphabet): index -> fields
KINDS = {
    1: dict(rd=[], wr=["a"], ld=[], st=[], memorder=False, special=False, jk="none", len=4),
    2: dict(rd=["a"], wr=["a"], ld=[], st=[], memorder=False, special=False, jk="none", len=2),
    3: dict(rd=["a"], wr=["b"], ld=[], st=[], memorder=False, special=False, jk="none", len=4),
    4: dict(rd=["b"], wr=["a"], ld=[], st=[], memorder=False, special=False, jk="none", len=4),
    5: dict(rd=[], wr=["b"], ld=[], st=[], memorder=False, special=False, jk="none", len=2),
    6: dict(rd=[], wr=["a"], ld=["m"], st=[], memorder=False, special=False, jk="none", len=4),
    7: dict(rd=["a"], wr=[], ld=[], st=["m"], memorder=False, special=False, jk="none", len=4),
    8: dict(rd=[], wr=[], ld=[], st=["m"], memorder=False, special=False, jk="none", len=4),
    9: dict(rd=[], wr=[], ld=[], st=[], memorder=True, special=False, jk="none", len=4),
    10: dict(rd=[], wr=[], ld=[], st=[], memorder=False, special=True, jk="none", len=4),
    11: dict(rd=[], wr=["c"], ld=[], st=[], memorder=False, special=False, jk="none", len=4),
    12: dict(rd=["b"], wr=["b"], ld=["m"], st=["m"], memorder=True, special=False, jk="none", len=4),
    13: dict(rd=[], wr=[], ld=[], st=[], memorder=False, special=False, jk="next", len=4),
    14: dict(rd=["a"], wr=[], ld=[], st=[], memorder=False, special=False, jk="cond", len=4),
    15: dict(rd=[], wr=["b"], ld=["n"], st=[], memorder=False, special=False, jk="none", len=4),
    16: dict(rd=["c"], wr=[], ld=[], st=["n"], memorder=False, special=False, jk="none", len=2),
    17: dict(rd=["b"], wr=[], ld=[], st=["m"], memorder=False, special=False, jk="none", len=4, addrreg="b"),
    18: dict(rd=["b"], wr=["a"], ld=["m"], st=[], memorder=False, special=False, jk="none", len=4, addrreg="b"),
    # a REGISTER named like the memory space m (registers and memories are separate name spaces)
    19: dict(rd=[], wr=["m"], ld=[], st=[], memorder=False, special=False, jk="none", len=4),
    20: dict(rd=["m"], wr=["c"], ld=[], st=[], memorder=False, special=False, jk="none", len=4),
    # one instruction storing TWICE into the same memory space (store pair / push multiple): the same abstract
    # instructions as 8, 7, 16 (Deps reads the stores as a set), so TLC's histories for those apply unchanged
    21: dict(rd=[], wr=[], ld=[], st=["m", "m"], memorder=False, special=False, jk="none", len=4),
    22: dict(rd=["a"], wr=[], ld=[], st=["m", "m"], memorder=False, special=False, jk="none", len=4),
    23: dict(rd=["c"], wr=[], ld=[], st=["n", "n"], memorder=False, special=False, jk="none", len=2),
}
DOUBLE = {8: 21, 7: 22, 16: 23}


def double_stores(hs):
    """copies of the histories containing a plain store, with every such store replaced by its double-store twin"""
    out = []
    for h in hs:
        if any(k in DOUBLE for k in h["kinds"]):
            out.append(dict(h, kinds=[DOUBLE.get(k, k) for k in h["kinds"]]))
    return out


SAMEKEY = [1, 6, 7, 8, 12, 19, 20]      # small alphabet around the shared key
BASES = [[0, 16, 0, 0, 0, 0, 0, 0], [0, 0, 0, 0, 1, 0, 0, 0], [0, 240, 255, 255, 255, 255, 255, 127], [0, 0, 0, 0, 0, 0, 0, 240]]

DEPS_LEVEL = ("The reordering state machine (spec/Deps.tla) is model-checked by TLC (every block of <= 3-4 abstract "
              "instructions over a 16-instruction alphabet, every admitted move history: conflicting pairs keep their "
              "order, symbolic meaning unchanged, independent neighbours swappable); TLC generates one (block, move "
              "history) per distinct reachable order; the harness replays them into deps.NewCode / Block.Move / Code.Move "
              "on executable synthetic instructions; TLC validates every recorded answer and projection.")
DEPS_NOTE = ("Trusted: TLC, Json module, the harness's construction of synthetic instructions from abstract read/write "
             "sets and the verif-tagged export of dependency edges. Small scope: blocks of <= 4 instructions, 3 registers "
             "+ ip, 2 memory spaces.")


def gen_cfg(maxlen, kinds):
    return ("INIT Init\nNEXT Next\nVIEW View\nINVARIANT Dump\nCONSTANT MaxLen = %d\nCONSTANT Gen = TRUE\n"
            "CONSTANT KindSet = {%s}\nCHECK_DEADLOCK FALSE\n" % (maxlen, ", ".join(map(str, kinds))))


def block_ins(kinds, start=0, target=0):
    ins, a = [], start
    for k in kinds:
        d = dict(KINDS[k])
        ln = d.pop("len")
        d.setdefault("addrreg", "")
        ins.append(dict(d, addr=a, len=ln, t=[target] if d["jk"] in ("cond", "const") else [], text="k%d" % k))
        a += ln
    return ins, a


class DepsCheck(Check):
    family = "deps"
    module = "TraceDeps"
    level_text, level_note = DEPS_LEVEL, DEPS_NOTE
    technique = ("TLA+ state machine (Deps) model-checked with TLC; TLC-generated (block, move history) behaviours replayed "
                 "into the real code; recorded answers/projections validated by the TLA+ trace specification")
    trusted = ["Go harness: synthetic instruction builder, projection, verif-tagged edge export", "TLC, CommunityModules Json"]
    mc = [("Deps_MC", "Deps_MC")]
    mc_thorough = [("Deps_MC", "Deps_MC_len4")]
    whys = None

    @property
    def constants(self):
        # only the classes the check owns are judged: a disagreement of another class in the same event cannot hide them
        return "CONSTANT Focus = {%s}\n" % ", ".join('"%s"' % w for w in sorted(self.whys or ()))

    def stateful(self):
        return True

    def filter_bad(self, bad):
        if self.whys is None:
            return bad
        return [b for b in bad if b["why"] in self.whys]

    def histories(self, maxlen, kinds, tag):
        hs, st = core.tlc_generate("Deps_MC", gen_cfg(maxlen, kinds), tag, timeout=1200)
        self.gen_stats = st
        return hs

    def nontrivial_key(self, group, events):
        if not any(e["op"] == "move" and e["ok"] and e["from"] != e["to"] for e in events):
            return None
        return repr([(c.get("ins"), c.get("block"), c.get("from"), c.get("to"), c["op"]) for c in group])

    def single_block_group(self, rng, gid, h, probes=True):
        ins, end = block_ins(h["kinds"])
        g = [{"case": gid, "op": "new", "base": rng.choice(BASES), "entry": 0, "ins": ins}]
        for f, t in h["moves"]:
            g.append({"case": gid, "op": "move", "block": 0, "from": f, "to": t})
        return g


ALLK = list(range(1, 19))


class C06(DepsCheck):
    pid = "C06"
    whys = {"mustswap"}
    rule = ("blocks: every block of <= 3 (thorough: 4 over a reduced alphabet) abstract instructions over the 16-instruction "
            "alphabet of Deps_MC x every order reachable by admitted moves (TLC BFS, one history per order); after creation "
            "and after every move, for every adjacent pair satisfying the property's antecedent (Deps!Independent) the "
            "reported bounds must admit the swap, and every such swap is also attempted directly; every block with a store "
            "also with its double-store twin (one instruction storing twice into the same space); non-trivial = block "
            "with an accepted order-changing move; distinct by (block, history)")
    assumptions = ["alphabet of 16 abstract instruction kinds over registers a,b,c,ip and memory spaces m,n"]

    def groups(self, tier, seed):
        rng = random.Random(seed * 67867967 + 6)
        hs = self.histories(3, ALLK, "C06-gen") + self.histories(3, SAMEKEY, "C06-genk")
        if tier == "thorough":
            hs += self.histories(4, [1, 2, 3, 6, 7, 9, 10, 12, 13, 14], "C06-gen4")
        hs += double_stores(hs)
        self.exhaustive = True
        gs = []
        for i, h in enumerate(hs):
            g = self.single_block_group(rng, "b%d" % i, h)
            n = len(h["kinds"])
            # attempt every adjacent swap from the reached order (each accepted swap is undone by the reverse swap)
            for p in range(n - 1):
                g.append({"case": g[0]["case"], "op": "move", "block": 0, "from": p, "to": p + 1})
                g.append({"case": g[0]["case"], "op": "move", "block": 0, "from": p + 1, "to": p})
            gs.append(g)
        return gs


class C07(DepsCheck):
    pid = "C07"
    whys = {"projection", "lookup", "edgeorder", "accept", "panic"}
    rule = ("codes of 1-3 blocks (blocks from the Deps_MC alphabet, separated by address gaps or terminated by jumps, "
            "instruction lengths 2 and 4) x histories of instruction moves (TLC-generated admitted histories plus every "
            "(from, to) pair incl. from = to and the invalid indices -1, len, len+1), block moves (valid and invalid) and "
            "lookups at every byte address of the code +-4; after every operation the full projection (block order, "
            "begin/end, per instruction id, address, index, reported bounds) and all lookups are compared with the "
            "abstract state; acceptance must equal 'indices valid and target within the reported bounds'; "
            "non-trivial = history with an accepted order-changing move; distinct by history")
    assumptions = ["dependency edges are taken from the implementation (the property speaks about the bounds the tool reports)"]

    def groups(self, tier, seed):
        rng = random.Random(seed * 86028157 + 7)
        hs = self.histories(3, ALLK, "C07-gen") + self.histories(3, SAMEKEY, "C07-genk")
        if tier == "thorough":
            hs += self.histories(4, [1, 2, 3, 6, 7, 9, 10, 12, 13, 14], "C07-gen4")
        hs += double_stores(hs)[::2 if tier == "quick" else 1]
        gs = []
        # single blocks: replay + all (from,to) probes including invalid ones
        sel = hs if tier == "thorough" else [h for i, h in enumerate(hs) if i % 3 == 0]
        for i, h in enumerate(sel):
            g = self.single_block_group(rng, "s%d" % i, h)
            n = len(h["kinds"])
            pairs = [(f, t) for f in range(-1, n + 2) for t in range(-1, n + 2)]
            rng.shuffle(pairs)
            for f, t in pairs[: 12 if tier == "quick" else 30]:
                g.append({"case": g[0]["case"], "op": "move", "block": 0, "from": f, "to": t})
            gs.append(g)
        # multi-block codes
        nm = 300 if tier == "quick" else 5000
        multi = [h for h in hs if len(h["kinds"]) >= 2]
        for i in range(nm):
            gid = "m%d" % i
            nb = rng.choice([2, 2, 3])
            parts = [rng.choice(multi) for _ in range(nb)]
            ins, a, starts = [], 0, []
            for bi, h in enumerate(parts):
                starts.append(a)
                bl, a2 = block_ins(h["kinds"], a, target=starts[0])
                ins += bl
                a = a2
                last = KINDS[h["kinds"][-1]]
                if last["jk"] != "cond":
                    a += rng.choice([2, 4, 8])        # address gap separates the blocks
            g = [{"case": gid, "op": "new", "base": rng.choice(BASES), "entry": rng.choice(starts), "ins": ins}]
            ops = []
            for bi, h in enumerate(parts):
                for f, t in h["moves"]:
                    ops.append({"case": gid, "op": "move", "block": bi, "from": f, "to": t, "_b": bi})
            # interleave the per-block histories, block moves and invalid requests
            order = list(range(nb))
            seqs = {bi: [o for o in ops if o["_b"] == bi] for bi in range(nb)}
            while any(seqs.values()) or rng.random() < 0.3:
                c = rng.random()
                if c < 0.25:
                    f, t = rng.randrange(-1, nb + 1), rng.randrange(-1, nb + 1)
                    g.append({"case": gid, "op": "bmove", "from": f, "to": t})
                    if 0 <= f < nb and 0 <= t < nb and f != t:
                        x = order.pop(f)
                        order.insert(t, x)
                elif c < 0.35:
                    pos = rng.randrange(nb)
                    n = len(parts[order[pos]]["kinds"])
                    g.append({"case": gid, "op": "move", "block": pos, "from": rng.randrange(-1, n + 1), "to": rng.randrange(-1, n + 1)})
                    break_hist = order[pos]
                    seqs[break_hist] = []          # the generated history of that block no longer applies
                else:
                    live = [bi for bi in seqs if seqs[bi]]
                    if not live:
                        break
                    bi = rng.choice(live)
                    o = dict(seqs[bi].pop(0))
                    o.pop("_b")
                    o["block"] = order.index(bi)
                    g.append(o)
            gs.append(g)
        return gs


def c08_programs(rng, tier):
    """abstract programs over <= 5 slots of 4 bytes at 0,4,8,...: absent slots are gaps"""
    progs = []
    kinds = ["plain", "next", "cond", "const", "ind", "two"]

    def targets(nslots):
        return [4 * s for s in range(nslots)] + [2, 4 * nslots, 100]

    def build(slots, tg):
        ins = []
        for s, k in enumerate(slots):
            if k is None:
                continue
            d = dict(rd=[], wr=[], ld=[], st=[], memorder=False, special=False, addr=4 * s, len=4, text=k, t=[])
            if k == "plain":
                d.update(jk="none", wr=["a"])
            elif k == "next":
                d.update(jk="next")
            elif k == "cond":
                d.update(jk="cond", rd=["a"], t=[tg[0]])
            elif k == "const":
                d.update(jk="const", t=[tg[0]])
            elif k == "ind":
                d.update(jk="ind")
            else:
                d.update(jk="two", rd=["a"], t=[tg[0], tg[1]])
            ins.append(d)
        return ins

    for n in (0, 1, 2, 3):
        for slots in itertools.product([None] + kinds, repeat=n):
            tgs = [(0, 0)]
            if any(k in ("cond", "const", "two") for k in slots if k):
                tgs = [(a, b) for a in targets(n) for b in targets(n)[:3]]
                if tier == "quick" and n == 3:
                    tgs = rng.sample(tgs, 4)
            for tg in tgs:
                for entry in ([4 * s for s in range(n)] + [2, 4 * n]) if n else [0]:
                    if tier == "quick" and n == 3 and rng.random() < 0.5:
                        continue
                    progs.append((build(slots, tg), entry))
    extra = 300 if tier == "quick" else 20000
    for _ in range(extra):
        n = rng.choice([4, 5])
        slots = [rng.choice([None, "plain", "plain"] + kinds) for _ in range(n)]
        tg = (rng.choice(targets(n)), rng.choice(targets(n)))
        progs.append((build(slots, tg), rng.choice([4 * s for s in range(n)] + [2, 100])))
    return progs


class C08(DepsCheck):
    pid = "C08"
    whys = {"builderr", "partition", "entry", "panic"}
    exhaustive = True
    rule = ("abstract programs over <= 5 instruction slots (absent slots = address gaps; kinds: plain, branch to the next "
            "instruction only, conditional branch to t, jump to t, indirect jump, jump with two targets; t in slot "
            "starts, mid-instruction, gap, behind the code, outside; entry point likewise, incl. the empty program) - "
            "exhaustive for <= 3 slots, sampled for 4-5, instruction lists also reversed / rotated / shuffled; NewCode must fail iff entry or a constant real target is not an "
            "instruction start, else the blocks must equal Deps!Partition; non-trivial = program with >= 2 instructions; "
            "distinct by (program, entry)")
    assumptions = ["instructions do not overlap", "4-byte slots"]

    def nontrivial_key(self, group, events):
        c = group[0]
        if len(c["ins"]) < 2:
            return None
        return repr((c["ins"], c["entry"]))

    def filter_bad(self, bad):
        return [b for b in bad if b["why"] in self.whys and b["pos"] == 0]

    def groups(self, tier, seed):
        rng = random.Random(seed * 104395301 + 8)
        gs = []
        for i, (ins, entry) in enumerate(c08_programs(rng, tier)):
            gs.append([{"case": "p%d" % i, "op": "new", "base": rng.choice(BASES), "entry": entry, "ins": ins}])
            # the instruction list in another order (reversed, rotated, shuffled): nothing may depend on the order given
            if len(ins) >= 2 and (tier == "thorough" or rng.random() < 0.5):
                c = rng.random()
                if c < 0.35:
                    ins2 = list(reversed(ins))
                elif c < 0.7:
                    r = rng.randrange(1, len(ins))
                    ins2 = ins[r:] + ins[:r]
                else:
                    ins2 = list(ins)
                    rng.shuffle(ins2)
                gs.append([{"case": "u%d" % i, "op": "new", "base": rng.choice(BASES), "entry": entry, "ins": ins2}])
        return gs


class C05Abstract(DepsCheck):
    """abstract half of C05: flags accepted moves that reorder a conflicting pair (used to select the histories
    whose behaviour is then compared through the real emulator)"""
    pid = "C05"
    whys = {"unsound"}
    rule = ""

    def groups(self, tier, seed):
        rng = random.Random(seed * 122949829 + 5)
        hs = self.histories(3, ALLK, "C05-gen") + self.histories(3, SAMEKEY, "C05-genk")
        gs = []
        for i, h in enumerate(hs):
            g = self.single_block_group(rng, "b%d" % i, h)
            n = len(h["kinds"])
            pairs = [(f, t) for f in range(n) for t in range(n) if f != t]
            rng.shuffle(pairs)
            for f, t in pairs[:6]:
                g.append({"case": g[0]["case"], "op": "move", "block": 0, "from": f, "to": t})
            gs.append(g)
        return gs
