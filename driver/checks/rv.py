"""C01 C02 C25 (and helpers for C21, C03): the RISC-V front end judged by spec/RV.tla."""
import random, re, json
from ..runner import Check
from .. import core, gen_rv
from ..gen_rv import T, CONFIGS, encode, valid_in, word_bytes, s_type, i_type, u_type, j_type, b_type, IMM20, IMMJ, IMMB

RV_LEVEL = ("Trace validation against an independent TLA+ transcription of the RISC-V unprivileged specification "
            "(spec/RV.tla: Decode, immediates, Exec with the tool's documented approximations): every recorded "
            "Parser.Parse call is judged by TLC; lifted effects are evaluated by ExprIR!Eval in sampled machine states "
            "and compared with RV!Exec on registers, CSR, touched memory and instruction pointer.")
RV_NOTE = ("Trusted: TLC, Json module, BV/ExprIR/Gadgets/RV modules (hand-transcribed from the ISA manual; BV is "
           "model-checked against integer arithmetic), the harness serialiser and text tokeniser. Exhaustive over "
           "mnemonics x configurations x field classes; operand values sampled from edge grids + seeded random.")

XRE = re.compile(r"^x\d+$")
IPKEY = "#r:w:ip"


def addr_bytes(a):
    return [(a >> (8 * i)) & 255 for i in range(8)]


def edge_val(rng, w):
    full = (1 << (8 * w)) - 1
    c = rng.randrange(12)
    v = [0, 1, full, 1 << (8 * w - 1), (1 << (8 * w - 1)) - 1, 1 << 31, (1 << 32) - 1 & full, 0x5555555555555555 & full,
         0xAAAAAAAAAAAAAAAA & full, 2, full - 1, 7][c] if c < 12 and rng.random() < 0.75 else rng.getrandbits(8 * w)
    if rng.random() < 0.15:
        v = rng.randrange(0, 64)
    return [(v >> (8 * i)) & 255 for i in range(w)]


def make_states(rng, ev, k):
    w = ev["variant"] // 8
    keys = set(ev["keys"])
    wd = sum(b << (8 * i) for i, b in enumerate(ev["bytes"][:4]))
    for f in (7, 15, 20):
        n = (wd >> f) & 31
        if n:
            keys.add("x%d" % n)
    keys.discard(IPKEY)
    csr = [x for x in keys if not XRE.match(x)]
    states = []
    for i in range(k):
        regs = {x: edge_val(rng, w) for x in sorted(keys)}
        if i == 0:
            regs = {x: [(7 * j + 3 + 11 * n) % 256 for j in range(w)] for n, x in enumerate(sorted(keys))}
        # keep memory accesses inside the address space (no wrap-around)
        states.append({"regs": regs, "mem": {"memory": {"seed": rng.randrange(1000), "over": []}}})
    return states, (csr[0] if len(csr) == 1 else ("" if not csr else "?"))


ADDRS32 = [0, 0x1000, 0x7FFFFFFC, 0x80000000, 0xFFFFF000, 0x10]
ADDRS64 = ADDRS32 + [0x100000000, 0x7FFFFFFFFFFFFFFC, 0x8000000000000000, 0xFFFFFFFFFFFFF000]


class RVCheck(Check):
    family = "rv"
    module = "TraceRV"
    level_text, level_note = RV_LEVEL, RV_NOTE
    technique = "TLA+ reference ISA semantics (RV.tla) as oracle; TLC trace validation of recorded Parse calls"
    trusted = ["Go harness: effect serialiser, assembler-punctuation tokeniser", "TLC, CommunityModules Json",
               "spec/RV.tla transcription of the ISA manual"]
    mc = [("BV_MC", "BV_MC")]
    nstates = 3
    mode = "sem"

    def decorate(self, rng, ev):
        if ev.get("op") == "codeparse":
            return ev
        if ev.get("op") == "pair" or ev["err"] or ev["panic"]:
            ev["states"], ev["csrkey"] = [], ""
            return ev
        ev["states"], ev["csrkey"] = make_states(rng, ev, self.nstates)
        return ev

    def record(self, groups):
        evg = Check.record(self, groups)
        # machine states are a function of the case alone, so that a failing case replays identically on its own
        import zlib
        out = []
        for evs in evg:
            row = []
            for e in evs:
                key = json.dumps([e.get("case"), e.get("variant"), e.get("exts"), e.get("addr"), e.get("bytes"), e.get("image")])
                row.append(self.decorate(random.Random(zlib.crc32(key.encode())), e))
            out.append(row)
        return out

    def case(self, cid, xlen, exts, addr, word, extra=None, mode=None):
        bs = word_bytes(word) + (extra or [])
        return {"case": cid, "op": "parse", "mode": mode or self.mode, "variant": xlen, "exts": exts,
                "addr": addr_bytes(addr), "bytes": bs}


class C01(RVCheck):
    pid = "C01"
    nstates = 6
    rule = ("cases: every mnemonic of every configuration (RV32/RV64 x {I, IM, IA, IMA}) x seeded draws from field "
            "grids (rd/rs1/rs2 in {0,1,2,5,10,31} incl. equal registers; immediates 0, +-1, min, max, bit patterns; all "
            "shift-amount classes; CSR numbers 0,1,0x300,0x7FF,0x800,0xC00,0xFFF; aq/rl bits) x instruction addresses "
            "(0, 0x1000, 2^31-4, 2^31, 2^32-4096, 2^63-4, 2^63, 2^64-4096); every value of the U / J / B immediate grids "
            "for every such mnemonic at a low, a high and a random address (RV32/RV64 x {I, IMA}) x 6 machine states (edge/random register "
            "values, total pseudo-random memory); judged: final rd, CSR, touched memory bytes and ip of the lifted "
            "effects = RV!Exec; no effect names x0; non-trivial = accepted word; distinct by (config, address, word)")
    assumptions = ["6 machine states per instruction word (registers from an edge grid + random; memory a total function)",
                   "memory accesses do not wrap around the address space",
                   "addresses leave room for the immediates used (pc-relative targets stay inside the address space)"]

    def nontrivial_key(self, group, events):
        e = events[0]
        if e["err"] or e["panic"]:
            return None
        return repr((e["variant"], e["exts"], e["addr"], e["bytes"]))

    def groups(self, tier, seed):
        rng = random.Random(seed * 2750159 + 1)
        reps = 8 if tier == "quick" else 60
        gs = []
        k = 0
        for xlen, exts in CONFIGS:
            cfg_reps = reps if exts == "MA" else max(2, reps // 4)
            for t in T:
                if not valid_in(t, xlen, exts):
                    continue
                for _ in range(cfg_reps):
                    w = encode(t, rng, xlen)
                    addr = rng.choice(ADDRS64 if xlen == 64 else ADDRS32)
                    gs.append([self.case("i%d" % k, xlen, exts, addr, w)])
                    k += 1
                # every value of the immediate grid of the pc-relative / upper-immediate formats (the extreme immediates
                # are where address arithmetic overflows), at a low and a high address
                grid = {"U": IMM20, "J": IMMJ, "B": IMMB}.get(t["fmt"])
                if grid and exts in ("MA", ""):
                    enc = {"U": lambda v: u_type(t["op"], 5, v), "J": lambda v: j_type(t["op"], 1, v),
                           "B": lambda v: b_type(t["op"], t["f3"], 5, 10, v)}[t["fmt"]]
                    for v in grid:
                        for addr in ([0x1000, 0xFFFFF000] if xlen == 32 else [0x1000, 0x8000000000000000]) + \
                                [rng.choice(ADDRS64 if xlen == 64 else ADDRS32)]:
                            gs.append([self.case("i%d" % k, xlen, exts, addr, enc(v))])
                            k += 1
                # the same word lifted again by the same parser at other addresses (and back): the lifting of a word may
                # depend on its address, never on what the parser lifted before
                w = encode(t, rng, xlen)
                addrs = rng.sample(ADDRS64 if xlen == 64 else ADDRS32, 2)
                g = []
                for a in (addrs[0], addrs[1], addrs[0]):
                    g.append(self.case("i%d" % k, xlen, exts, a, w))
                    k += 1
                gs.append(g)
        return gs

    def stateful(self):
        return True             # a group goes through one harness process (one parser per configuration), in order


def cube_words(rng, tier):
    """canonical words of every template, each fixed/free bit flipped, free fields all-zero / all-one"""
    out = []
    for t in T:
        base = encode(t, rng, 64)
        out.append((t, base))
        for b in range(32):
            out.append((t, base ^ (1 << b)))
        out.append((t, base | 0x01FFFF80 & ~0x7000))     # rd, rs1, rs2 all ones
        out.append((t, base & ~0x01FFFF80 | (base & 0x7000)))
        if tier == "thorough":
            for _ in range(6):
                w = encode(t, rng, rng.choice([32, 64]))
                out.append((t, w))
                out.append((t, w ^ (1 << rng.randrange(32)) ^ (1 << rng.randrange(32))))
    return out


class C02(RVCheck):
    pid = "C02"
    harness_timeout = 7200      # the thorough tier parses all 2^32 words of all 8 configurations (about 15 min on 16 cores)
    mode = "decode"
    nstates = 0
    mc_thorough = [("RV_MC", "RV_MC")]
    rule = ("layer 1: for every mnemonic template a canonical word, each of its 32 bits flipped, register fields all-zero and "
            "all-one, in all 8 configurations (RV32/RV64 x {I,IM,IA,IMA}): accepted iff RV!Decode names an instruction of "
            "the configuration, and named alike (case-insensitive); seeded random words; layer 2: inputs of 0..3 bytes are "
            "rejected and a word followed by arbitrary trailing bytes decodes as the bare word; layer 3 (thorough): ALL "
            "2^32 words of a configuration through the real Parse, summarised per top byte and name as (count, AND, OR) "
            "and compared with the cube table RV!Cubes (a set inside a cube with the cube's cardinality is the cube); "
            "non-trivial = word accepted by the tool or by the specification; distinct by (config, bytes)")
    assumptions = ["sweep address fixed at 0x1000 (acceptance does not depend on the address)",
                   "quick tier: 8 of the 256 top bytes of one configuration are swept exhaustively (seeded choice); thorough: all 8 configurations"]

    def decorate(self, rng, ev):
        ev["states"], ev["csrkey"] = [], ""
        return ev

    def nontrivial_key(self, group, events):
        e = events[0]
        if e["op"] == "sweep":
            return repr((e["variant"], e["exts"], e["lo"])) if e["names"] else None
        if e["panic"] or (e["err"] and not any(t["name"] for t in [{"name": ""}])):
            return None
        return repr((e["variant"], e["exts"], e["bytes"]))

    def groups(self, tier, seed):
        rng = random.Random(seed * 15487469 + 2)
        gs, k = [], 0
        words = cube_words(rng, tier)
        for xlen, exts in CONFIGS:
            for t, w in words:
                gs.append([self.case("b%d" % k, xlen, exts, 0x1000, w)])
                k += 1
        nrand = 2000 if tier == "quick" else 40000
        for _ in range(nrand):
            xlen, exts = rng.choice(CONFIGS)
            w = rng.getrandbits(32)
            if rng.random() < 0.7:      # random word on a plausible major opcode
                w = (w & ~0x7F) | rng.choice([0x37, 0x17, 0x6F, 0x67, 0x63, 0x03, 0x23, 0x13, 0x33, 0x1B, 0x3B, 0x0F, 0x73, 0x2F])
            gs.append([self.case("r%d" % k, xlen, exts, rng.choice(ADDRS32), w)])
            k += 1
        # short inputs and trailing bytes
        for xlen, exts in CONFIGS:
            for t, w in words[::33][:40]:
                bs = word_bytes(w)
                for n in range(4):
                    c = self.case("s%d" % k, xlen, exts, 0x1000, w)
                    c["bytes"] = bs[:n]
                    gs.append([c])
                    k += 1
                gs.append([self.case("t%d" % k, xlen, exts, 0x1000, w, extra=[rng.randrange(256) for _ in range(rng.choice([1, 2, 4, 7]))])])
                k += 1
        # exhaustive sweep of whole top-byte slices
        if tier == "quick":
            cfgs = [rng.choice(CONFIGS)]
            tops = sorted(rng.sample(range(256), 6) + [0x00, 0x40])
        else:
            cfgs, tops = CONFIGS, list(range(256))
            self.exhaustive = True
        for xlen, exts in cfgs:
            for top in tops:
                gs.append([{"case": "w%d_%s_%d" % (xlen, exts, top), "op": "sweep", "mode": "decode", "variant": xlen,
                            "exts": exts, "addr": addr_bytes(0x1000), "bytes": [], "lo": top}])
        return gs


class C25(RVCheck):
    pid = "C25"
    mode = "text"
    nstates = 3

    def stateful(self):
        return True             # a group stays in one harness process; verdicts that depend on what the process printed
                                # before are reproduced with that history
    rule = ("cases: the C01 grid (every mnemonic x configuration x field grids) plus, per mnemonic, every value of each "
            "behaviour-relevant small field (all 32/64 shift amounts, all 32 CSR immediates, sampled CSR numbers); the "
            "text is tokenised on assembler punctuation; judged: first token = mnemonic, every relevant register "
            "appears as x<n>, every relevant immediate as its decimal value, loads/stores as offset(base); and every pair "
            "of different words at one address with identical text must have Eval-equal lifted effects on 3 states; "
            "non-trivial = accepted word; distinct by (config, address, word)")
    assumptions = ["U-type immediates may be shown as the 20-bit field or as the shifted 32-bit value; CSR numbers signed or unsigned",
                   "fence pred/succ and aq/rl bits do not influence the lifted behaviour and need not be shown"]

    def nontrivial_key(self, group, events):
        e = events[0]
        if e.get("op") == "pair":
            return repr(("pair", e["a"]["bytes"], e["b"]["bytes"], e["a"]["variant"]))
        if e["err"] or e["panic"]:
            return None
        return repr((e["variant"], e["exts"], e["addr"], e["bytes"]))

    def events_per_group(self, group):
        return len(group)

    def base_cases(self, tier, seed):
        rng = random.Random(seed * 32452843 + 25)
        reps = 3 if tier == "quick" else 20
        cs, k = [], 0
        for xlen, exts in [(32, "MA"), (64, "MA")] + ([] if tier == "quick" else [(32, ""), (64, "M"), (64, "A")]):
            for t in T:
                if not valid_in(t, xlen, exts):
                    continue
                ws = [encode(t, rng, xlen) for _ in range(reps)]
                base = ws[0]
                if t["fmt"] in ("SH", "SHW"):
                    bits = 6 if (t["fmt"] == "SH" and xlen == 64) else 5
                    ws += [(base & ~(((1 << bits) - 1) << 20)) | (s << 20) for s in range(1 << bits)]
                if t["fmt"] == "CSR":
                    ws += [(base & ~(31 << 15)) | (u << 15) for u in range(32)]
                    ws += [(base & 0x000FFFFF) | (c << 20) for c in (0, 1, 2, 5, 7, 0x300, 0x301, 0x7FF, 0x800, 0xFFF)]
                if t["fmt"] in ("I", "S"):
                    ws += [(base & ~0xFE000F80 & ~(0xFFF << 20 if t["fmt"] == "I" else 0)) | 0 for _ in range(0)]
                addr = rng.choice(ADDRS32)
                for w in ws:
                    cs.append(self.case("x%d" % k, xlen, exts, addr, w))
                    k += 1
        return cs

    def groups(self, tier, seed):
        cases = self.base_cases(tier, seed)
        gs = [[c] for c in cases]
        # discover identical texts for different words at one address (pre-pass through the real code)
        evs = core.run_harness_parallel("rv", cases)
        by = {}
        for c, e in zip(cases, evs):
            if e["err"] or e["panic"]:
                continue
            by.setdefault((e["variant"], e["exts"], tuple(e["addr"]), e["text"]), []).append(c)
        self.text_groups = len(by)
        k = 0
        for key, cl in by.items():
            seen = {}
            for c in cl:
                seen.setdefault(tuple(c["bytes"]), c)
            ws = list(seen.values())
            for i in range(1, len(ws)):
                a, b = dict(ws[0]), dict(ws[i])
                a["case"] = b["case"] = "p%d" % k
                a["pair"] = b["pair"] = True
                gs.append([a, b])
                k += 1
        return gs

    def record(self, groups):
        evg = RVCheck.record(self, groups)
        out = []
        import zlib
        for g, evs in zip(groups, evg):
            if len(g) == 2 and g[0].get("pair"):
                a, b = evs
                rng = random.Random(zlib.crc32(json.dumps([a["bytes"], b["bytes"], a["addr"]]).encode()))
                st, _ = make_states(rng, dict(a, keys=sorted(set(a["keys"]) | set(b["keys"]))), 3)
                out.append([{"case": a["case"], "op": "pair", "mode": "text", "a": a, "b": b, "states": st, "panic": ""}])
            else:
                out.append(evs)
        return out

    def validate(self, evgroups, tag):
        return RVCheck.validate(self, evgroups, tag)


class C21(RVCheck):
    pid = "C21"
    mode = "sem"
    nstates = 2
    rule = ("code images: 1-3 non-overlapping blocks (unsorted on input) of 0-4 words drawn from valid words of many "
            "mnemonics (half of them pc-relative: auipc, jal, branches; a third of the words repeat a word used earlier in "
            "the image or in an earlier image), one undecodable word, and a truncated tail of 1-3 bytes, at 4 image bases, "
            "RV64IMA and RV32IM; "
            "parser.Parse must fail iff some 4-byte position holds an undecodable or truncated word; otherwise the "
            "instructions must tile every block in address order with the bytes at their address, and the effects of "
            "every instruction must equal RV!Exec at that address on 2 machine states; non-trivial = image with >= 2 "
            "instructions; distinct by (config, image)")
    assumptions = ["blocks do not overlap (the ELF loader rejects overlapping sections before parsing)", "2 machine states per instruction"]

    def nontrivial_key(self, group, events):
        e = events[0]
        if e["err"] or len(e["ins"]) < 2:
            return None
        return repr((e["variant"], e["exts"], e["image"], e["addr"]))

    def decorate(self, rng, ev):
        for x in ev.get("ins", []):
            pseudo = {"variant": ev["variant"], "keys": x["keys"], "bytes": x["bytes"]}
            x["states"], x["csrkey"] = make_states(rng, pseudo, self.nstates)
        return ev

    def groups(self, tier, seed):
        rng = random.Random(seed * 275604541 + 21)
        n = 600 if tier == "quick" else 10000
        gs = []
        seen_by = {}
        for i in range(n):
            xlen, exts = rng.choice([(64, "MA"), (64, "MA"), (32, "M"), (64, "")])
            ts = [t for t in T if valid_in(t, xlen, exts)]
            pcrel = [t for t in ts if t["fmt"] in ("U", "J", "B")] or ts
            seen = seen_by.setdefault((xlen, exts), [])
            nb = rng.choice([1, 1, 2, 3])
            image, off = [], rng.choice([0, 4, 16])
            for b in range(nb):
                bs = []
                for _ in range(rng.choice([0, 1, 2, 3, 4]) if nb > 1 else rng.choice([1, 2, 3, 4])):
                    c = rng.random()
                    if c < 0.35 and seen:
                        # the same word again at another address (of this image or of an earlier image handled by the same
                        # process): nothing about an instruction may be remembered by its encoding
                        bs += word_bytes(rng.choice(seen[-6:] if rng.random() < 0.7 else seen))
                    elif c < 0.9:
                        w = encode(rng.choice(pcrel if rng.random() < 0.5 else ts), rng, xlen)
                        seen.append(w)
                        bs += word_bytes(w)
                    elif c < 0.95:
                        bs += word_bytes(rng.choice([0x00000000, 0xFFFFFFFF, 0x0000007F, 0x00007013 | 0x7000 << 0]))
                    else:
                        bs += word_bytes(rng.getrandbits(32))
                if rng.random() < 0.08:
                    bs += [rng.randrange(256) for _ in range(rng.choice([1, 2, 3]))]
                if bs:
                    image.append({"off": off, "bytes": bs})
                off += len(bs) + rng.choice([0, 4, 8, 2])
            rng.shuffle(image)
            addr = rng.choice([0x1000, 0x80000000, 0x10000 if xlen == 32 else 0x7FFFFFFFF000])
            gs.append([{"case": "c%d" % i, "op": "codeparse", "mode": "sem", "variant": xlen, "exts": exts,
                        "addr": addr_bytes(addr), "bytes": [], "image": image, "lo": 0}])
        # absolute accesses (base register x0): the whole address is a constant of the lifted effect - every store / load
        # width x immediates on both sides of the byte and halfword boundaries, negative ones included
        k = n
        for xlen, exts in ((64, "MA"), (32, "M")):
            stores = [0, 1, 2] + ([3] if xlen == 64 else [])
            loads = [0, 1, 2, 4, 5] + ([3, 6] if xlen == 64 else [])
            for imm in (-2048, -1024, -256, -16, -8, 8, 127, 128, 255, 256, 768, 1024, 2040):
                words = [s_type(0x23, f3, 0, 5, imm) for f3 in stores] + [i_type(0x03, f3, 6, 0, imm) for f3 in loads]
                bs = []
                for w in words:
                    bs += word_bytes(w)
                gs.append([{"case": "c%d" % k, "op": "codeparse", "mode": "sem", "variant": xlen, "exts": exts,
                            "addr": addr_bytes(0x1000), "bytes": [], "image": [{"off": 0, "bytes": bs}], "lo": 0}])
                k += 1
        return gs
