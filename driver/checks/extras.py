"""Conformance checks of parts of the specification that belong to no listed property (spec coverage beyond the list):
./check X01  - keys and instruction descriptors (spec/Keys.tla).  Not registered in MANIFEST.json; evidence is written
to /verif/evidence_extra/."""
import itertools, random
from ..runner import Check


class X01(Check):
    pid = "X01"
    family = "keys"
    module = "TraceKeys"
    exhaustive = True
    level_text = "exhaustive small-scope trace validation of key validation and model.Instruction.Validate against spec/Keys.tla"
    level_note = "beyond the listed properties"
    rule = ("all four expression constructors x keys built from parts: plain names (incl. empty), reserved keys with every "
            "scope/permission letter (valid and invalid), both separators, names ip / other / empty; instruction "
            "descriptors: type 0..9 x length 0/4 x nil effect x missing details")

    def nontrivial_key(self, group, events):
        return repr(group[0])

    def groups(self, tier, seed):
        gs, k = [], 0
        for op in ("regload", "regstore", "memload", "memstore"):
            for name in ("x1", "", "memory", "a#b"):
                gs.append([{"case": "k%d" % k, "op": op, "hash": False, "scope": "", "sep1": "", "perm": "", "sep2": "", "name": name}])
                k += 1
            for scope, perm in itertools.product(["r", "m", "b", "x", ""], ["r", "w", "b", "x", ""]):
                for sep1, sep2 in ((":", ":"), (";", ":"), (":", "")):
                    for name in ("ip", "sp", ""):
                        gs.append([{"case": "k%d" % k, "op": op, "hash": True, "scope": scope, "sep1": sep1, "perm": perm, "sep2": sep2, "name": name}])
                        k += 1
        for t in range(0, 10):
            for bl in (0, 4):
                for ne in (False, True):
                    for nd in (False, True):
                        gs.append([{"case": "i%d" % k, "op": "insvalidate", "hash": False, "scope": "", "sep1": "", "perm": "", "sep2": "",
                                    "name": "", "type": t, "byteln": bl, "nileff": ne, "nodet": nd}])
                        k += 1
        return gs
