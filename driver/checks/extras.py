"""Conformance checks of parts of the specification that belong to no listed property (spec coverage beyond the list):
./check X01  - keys and instruction descriptors (spec/Keys.tla).  Not registered in MANIFEST.json; evidence is written
to /verif/evidence_extra/."""
import itertools, random
from ..runner import Check


class X01(Check):
    pid = "X01"
    family = "keys"
    module = "TraceKeys"
    exhaustive = True
    level_text = "exhaustive small-scope trace validation of key validation and model.Instruction.Validate against spec/Keys.tla"
    level_note = "beyond the listed properties"
    rule = ("all four expression constructors x keys built from parts: plain names (incl. empty), reserved keys with every "
            "scope/permission letter (valid and invalid), both separators, names ip / other / empty; instruction "
            "descriptors: type 0..9 x length 0/4 x nil effect x missing details")

    def nontrivial_key(self, group, events):
        return repr(group[0])

    def groups(self, tier, seed):
        gs, k = [], 0
        for op in ("regload", "regstore", "memload", "memstore"):
            for name in ("x1", "", "memory", "a#b"):
                gs.append([{"case": "k%d" % k, "op": op, "hash": False, "scope": "", "sep1": "", "perm": "", "sep2": "", "name": name}])
                k += 1
            for scope, perm in itertools.product(["r", "m", "b", "x", ""], ["r", "w", "b", "x", ""]):
                for sep1, sep2 in ((":", ":"), (";", ":"), (":", "")):
                    for name in ("ip", "sp", ""):
                        gs.append([{"case": "k%d" % k, "op": op, "hash": True, "scope": scope, "sep1": sep1, "perm": perm, "sep2": sep2, "name": name}])
                        k += 1
        for t in range(0, 10):
            for bl in (0, 4):
                for ne in (False, True):
                    for nd in (False, True):
                        gs.append([{"case": "i%d" % k, "op": "insvalidate", "hash": False, "scope": "", "sep1": "", "perm": "", "sep2": "",
                                    "name": "", "type": t, "byteln": bl, "nileff": ne, "nodet": nd}])
                        k += 1
        return gs


from . import emu as emuchk
from ..gen_rv import T, encode, valid_in


class X02(emuchk.EmuCheck):
    """the emulator on the other machine configurations the lifter supports: RV32 I/M/A and RV64 without all extensions"""
    pid = "X02"
    level_note = "beyond the listed properties (C03 speaks about RV64IMA)"
    rule = ("one two-instruction program per mnemonic valid in the configuration, for RV32 x {I, IM, IA, IMA} and RV64 x "
            "{I, IM, IA}, preset and provider-supplied registers of the configuration's width, judged step by step by "
            "TraceEmu / RV!Exec exactly like C03; non-trivial = both steps succeed")
    assumptions = ["memory accesses do not wrap around the address space"]

    def filter_bad(self, bad):
        return [b for b in bad if b["why"] not in emuchk.C04_WHYS]

    def groups(self, tier, seed):
        rng = random.Random(seed * 40503 + 2)
        out, k = [], 0
        for xlen, exts in [(32, ""), (32, "M"), (32, "A"), (32, "MA"), (64, ""), (64, "M"), (64, "A")]:
            nb = xlen // 8
            bases = [[0, 16, 0, 0, 0, 0, 0, 0], [0, 0, 0, 128, 0, 0, 0, 0]] + ([[0, 0, 1, 0, 1, 0, 0, 0]] if xlen == 64 else [])
            for t in T:
                if not valid_in(t, xlen, exts):
                    continue
                for _ in range(2 if tier == "quick" else 8):
                    w = encode(t, rng, xlen)
                    regs0 = {}
                    for r in (1, 2, 5, 10, 31):
                        if rng.random() < 0.5:
                            v = rng.choice([0, 1, (1 << xlen) - 1, 1 << (xlen - 1), rng.getrandbits(xlen), rng.getrandbits(12)])
                            regs0["x%d" % r] = [(v >> (8 * i)) & 255 for i in range(nb)]
                    out.append(self.program_group("x%d" % k, [w, 0x00000013], rng.choice(bases), regs0, rng.randrange(1 << 30), 2,
                                                  variant=xlen, exts=exts))
                    k += 1
        return out
