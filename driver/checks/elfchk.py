"""C20: ELF images are loaded faithfully (TraceElf, spec/Elf.tla)."""
import random
from ..runner import Check


def a8(v):
    return [(v >> (8 * i)) & 255 for i in range(8)]


def content(cid, n):
    return [(cid * 37 + 11 * k + 5) % 256 for k in range(n)]


class C20(Check):
    pid = "C20"
    family = "elf"
    module = "TraceElf"
    mc = [("BV_MC", "BV_MC")]
    level_text = ("spec/Elf.tla states what a successful load must yield and which files must be rejected; abstract ELF "
                  "files (type, entry, <= 3 program headers, <= 3 sections with every relation of addresses and sizes) are "
                  "written as real ELF64 files by the harness (re-read with debug/elf as a sanity check), loaded with the "
                  "real elf.NewParser / MachineCode / Memory / Entrypoint / Memory.Address, and TLC validates the result.")
    level_note = ("Trusted: TLC, Json module, BV, the harness's ELF writer (checked against debug/elf on every file). Small "
                  "scope: segments/sections of 0-12 bytes at addresses from a small set incl. 0, 2^32 and 2^63 region.")
    technique = "TLA+ specification (Elf.tla) as oracle; systematically enumerated abstract ELF files; TLC trace validation"
    trusted = ["Go harness: ELF64 writer (verified by debug/elf read-back)", "TLC, CommunityModules Json"]
    rule = ("files: type in {none, rel, exec, dyn, core} x 0-3 program headers (type LOAD / other; vaddr from a set producing "
            "disjoint, adjacent, overlapping, nested and equal ranges; file size 0-12; memory size =, >, < file size, 0) x "
            "0-3 sections (PROGBITS / NOBITS / other; executable or not; address 0 or not; size 0 or not; disjoint, "
            "adjacent, overlapping); physical addresses equal to / different from the virtual ones (zero, swapped, colliding, "
            "far away); exhaustive over single headers/sections and pairs from the value sets, sampled for "
            "triples; lookups at every block boundary +-1; judged: must-reject classes are rejected, and a successful "
            "load yields exactly the expected blocks, entry point and lookups; non-trivial = file of an accepted type with "
            ">= 1 loadable segment or code section; distinct by file description")
    assumptions = ["loading may report an error for any file (the property allows it); only mandatory rejections and the "
                   "content of successful loads are judged", "segment / section sizes <= 12 bytes; memory sizes < 2^24"]

    def nontrivial_key(self, group, events):
        c = group[0]
        if c["etype"] not in (2, 3) or not (c["progs"] or c["sects"]):
            return None
        return repr((c["etype"], c["entry"], c["progs"], c["sects"]))

    def groups(self, tier, seed):
        rng = random.Random(seed * 433494437 + 20)
        addrs = [0x1000, 0x1004, 0x1008, 0x100C, 0x1010, 0x2000, 0, 0xFFFFFFF8, 0x100000000, 0x7FFFFFFFFFFFF000]
        gs, k = [], [0]

        def prog(cid, ptype, vaddr, fsz, msz):
            return {"ptype": ptype, "vaddr": a8(vaddr), "content": content(cid, fsz), "filesz": -1, "memsz": a8(msz), "flags": 5}

        def sect(cid, stype, flags, addr, sz):
            return {"name": ".s%d" % cid, "stype": stype, "flags": flags, "addr": a8(addr), "content": content(cid, sz) if stype != 8 else [],
                    "size": sz}

        def add(etype, progs, sects, entry=0x1000):
            probes = set()
            for p in progs:
                v = sum(b << (8 * i) for i, b in enumerate(p["vaddr"]))
                m = sum(b << (8 * i) for i, b in enumerate(p["memsz"]))
                for d in (-1, 0, 1, m - 1, m, m + 1, len(p["content"])):
                    if 0 <= v + d < 2 ** 64:
                        probes.add(v + d)
            for s in sects:
                v = sum(b << (8 * i) for i, b in enumerate(s["addr"]))
                for d in (-1, 0, 1, len(s["content"]) - 1, len(s["content"])):
                    if 0 <= v + d < 2 ** 64:
                        probes.add(v + d)
            gs.append([{"case": "e%d" % k[0], "op": "elfload", "etype": etype, "machine": 243, "entry": a8(entry), "progs": progs,
                        "sects": sects, "probes": [a8(x) for x in sorted(probes)][:24], "path": ""}])
            k[0] += 1
        goodp = [prog(1, 1, 0x1000, 8, 8)]
        goods = [sect(1, 1, 6, 0x1000, 8)]
        for etype in (0, 1, 2, 3, 4):
            add(etype, goodp, goods)
            add(etype, [], [])
        # single program headers
        for ptype in (1, 2, 6):
            for v in addrs:
                for fsz, msz in ((8, 8), (8, 12), (8, 4), (0, 0), (0, 6), (4, 0), (12, 12), (1, 1)):
                    add(2, [prog(2, ptype, v, fsz, msz)], goods, entry=v)
        # pairs of loadable segments
        for v1 in addrs[:7]:
            for v2 in addrs[:7]:
                for (f1, m1, f2, m2) in ((8, 8, 8, 8), (4, 8, 4, 4), (8, 8, 0, 0), (4, 4, 8, 12), (12, 12, 2, 2)):
                    if tier == "quick" and rng.random() < 0.5:
                        continue
                    add(rng.choice([2, 3]), [prog(3, 1, v1, f1, m1), prog(4, 1, v2, f2, m2)], goods)
        # physical (load) address different from the virtual one (ROM images, AT(...) in linker scripts, p_paddr left 0):
        # the image lives at the VIRTUAL addresses; physical addresses that collide, swap or wrap change nothing
        def with_paddr(p, pa):
            return dict(p, paddr=a8(pa))
        for v in addrs[:8]:
            for pa in (0, 0x80000000, v + 4, (v - 8) % 2 ** 64, 0xFFFFFFFFFFFFFFF8):
                if pa == v:
                    continue
                add(2, [with_paddr(prog(6, 1, v, 8, 12), pa)], goods, entry=v)
        for (v1, v2) in ((0x1000, 0x2000), (0x1000, 0x1008), (0x1008, 0x1000), (0, 0x100000000)):
            for (p1, p2) in ((v2, v1), (0, 0), (v1, v1), (0x5000, 0x5004), (v1, v2 + 0x100)):
                add(rng.choice([2, 3]), [with_paddr(prog(7, 1, v1, 8, 8), p1), with_paddr(prog(8, 1, v2, 4, 8), p2)], goods)
        # segments that overlap virtually although their physical addresses are disjoint
        add(2, [with_paddr(prog(7, 1, 0x1000, 8, 8), 0x1000), with_paddr(prog(8, 1, 0x1004, 8, 8), 0x9000)], goods)
        # single sections / pairs
        for stype in (1, 8, 3):
            for flags in (6, 2, 4, 0, 7):
                for a in addrs[:8]:
                    for sz in (0, 4, 8):
                        if tier == "quick" and rng.random() < 0.4:
                            continue
                        add(2, goodp, [sect(5, stype, flags, a, sz)])
        for a1 in addrs[:7]:
            for a2 in addrs[:7]:
                for (s1, s2) in ((8, 8), (4, 4), (12, 4), (4, 12), (8, 0)):
                    if tier == "quick" and rng.random() < 0.5:
                        continue
                    add(2, goodp, [sect(6, 1, 6, a1, s1), sect(7, 1, rng.choice([6, 6, 2]), a2, s2)])
        # triples (sampled)
        for _ in range(400 if tier == "quick" else 8000):
            ps = [prog(10 + i, rng.choice([1, 1, 1, 2]), rng.choice(addrs), rng.choice([0, 4, 8, 12]), 0) for i in range(rng.choice([1, 2, 3]))]
            for p in ps:
                fs = len(p["content"])
                p["memsz"] = a8(rng.choice([fs, fs, fs + 4, max(0, fs - 2), 0]))
            ss = [sect(20 + i, rng.choice([1, 1, 1, 8, 3]), rng.choice([6, 6, 6, 2, 4]), rng.choice(addrs), rng.choice([0, 4, 8, 12]))
                  for i in range(rng.choice([0, 1, 2, 3]))]
            add(rng.choice([2, 2, 3, 3, 0, 1, 4]), ps, ss, entry=rng.choice(addrs))
        return gs
