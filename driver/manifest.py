"""Regenerates /verif/MANIFEST.json from the check registry:  python3 -m driver.manifest"""
import json, os, sys
from . import registry
from .core import VERIF

ALL = ["C%02d" % i for i in range(1, 33)]

BASE_OFF = ("cd /repo && GOFLAGS=-mod=mod GOPROXY=off GOSUMDB=off GOTOOLCHAIN=local "
            "go test -vet=off -count=1 ./...")


def build():
    cs = registry.checks()
    na = registry.not_applicable()
    checks = []
    for pid in ALL:
        if pid not in cs:
            continue
        c = cs[pid]
        checks.append({
            "property_id": pid,
            "quick_cmd": "./check %s --tier quick" % pid,
            "thorough_cmd": "./check %s --tier thorough" % pid,
            "evidence_file": "/verif/evidence/%s.json" % pid,
            "replay_cmd_template": "./check %s --replay {path}" % pid,
            "engine": "tla-trace",
            "level_claimed": {"category": "model_checking", "text": c.level_text, "design_ref": c.design_ref},
            "level_note": c.level_note,
            "technique": c.technique,
        })
    m = {
        "version": 1,
        "setup_cmd": "./setup.sh",
        "hooks": {
            "guard": "verif",
            "enable": "go build -tags verif -overlay <generated from /verif/harness/overlay.map> ./internal/zzverif "
                      "(run in /repo; harness sources live in /verif/harness and are grafted in virtually; /repo is not modified)",
            "baseline_off_cmd": BASE_OFF,
            "source_commits": [],
            "add_only": True,
        },
        "engines": [{
            "name": "tla-trace",
            "path": "/verif/spec",
            "serves_properties": [c["property_id"] for c in checks],
            "kind_free_text": "explicit TLA+ specification (spec/*.tla) model-checked with TLC; Go harness records "
                              "executions of the real code (and replays TLC-generated behaviours); TLC validates the "
                              "recorded traces against the specification",
        }],
        "checks": checks,
        "not_applicable": [{"property_id": p, "reason": na.get(p, "check not built yet (see DESIGN.md section 3 for the plan)")}
                           for p in ALL if p not in cs],
        "notes": "All checks: ./check <id> [--tier quick|thorough] [--replay path]; exit 0 ok, 1 VIOLATION, 2 infrastructure.",
    }
    return m


if __name__ == "__main__":
    m = build()
    with open(os.path.join(VERIF, "MANIFEST.json"), "w") as f:
        json.dump(m, f, indent=1)
        f.write("\n")
    print("checks:", len(m["checks"]), "not_applicable:", len(m["not_applicable"]))
