"""python3-vt -m driver.validate : validate MANIFEST.json and evidence files against the schemas"""
import json, glob, sys, jsonschema
m = json.load(open('/verif/MANIFEST.json')); s = json.load(open('/root/.vp/MANIFEST.schema.json'))
jsonschema.validate(m, s); print('manifest ok', len(m['checks']), 'checks')
es = json.load(open('/root/.vp/EVIDENCE.schema.json'))
for f in sorted(glob.glob('/verif/evidence/*.json')):
    jsonschema.validate(json.load(open(f)), es); print(f, 'ok')
