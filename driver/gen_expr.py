"""Generators of expression tables (the interchange format of spec/ExprIR.tla)
and of environments.  No semantics here: only shapes and values to try."""
import random

OPS = [1, 2, 3, 4, 5, 6]  # Add Lsh Rsh Mul Div Nand


class Table:
    def __init__(self, tails=None, tail_p=0.2):
        self.nodes = []
        self.index = {}
        self.tails, self.tail_p = tails, tail_p    # rng: some constants get live bytes behind them (see const)

    def _intern(self, n):
        k = repr(sorted(n.items()))
        if k in self.index:
            return self.index[k]
        self.nodes.append(n)
        self.index[k] = len(self.nodes)
        return len(self.nodes)

    def const(self, bs, tail=None):
        """tail: bytes the harness puts *behind* the constant in its backing array (the constant is made by narrowing
        a wider one, as the lifter and the memories do); invisible to the specification - the value is bs."""
        n = {"k": "c", "w": len(bs), "b": list(bs)}
        if tail is None and self.tails is not None and self.tails.random() < self.tail_p:
            tail = [self.tails.choice([0xFF, 0xA5, 1])] * self.tails.choice([1, 3, 8])
        if tail:
            n["x"] = list(tail)
        return self._intern(n)

    def constn(self, n, w):
        return self.const([(n >> (8 * i)) & 255 for i in range(w)])

    def reg(self, name, w):
        return self._intern({"k": "r", "w": w, "n": name})

    def bin(self, op, a, b, w):
        return self._intern({"k": "b", "w": w, "o": op, "a": [a, b]})

    def less(self, a, b, t, f, w):
        return self._intern({"k": "l", "w": w, "a": [a, b, t, f]})

    def mem(self, key, addr, w):
        return self._intern({"k": "m", "w": w, "n": key, "a": [addr]})

    def wg(self, a, w):  # width gadget
        return self.bin(1, a, self.const([0]), w)

    def width(self, i):
        return self.nodes[i - 1]["w"]

    def regs(self):
        return sorted({n["n"] for n in self.nodes if n["k"] == "r"})

    def mems(self):
        return sorted({n["n"] for n in self.nodes if n["k"] == "m"})


EDGE8 = [0, 1, 2, 0x7F, 0x80, 0x81, 0xFE, 0xFF]


def edge_bytes(rng, w):
    """an 'interesting' w-byte value"""
    c = rng.randrange(10)
    if c == 0:
        return [0] * w
    if c == 1:
        return [255] * w
    if c == 2:
        return [1] + [0] * (w - 1)
    if c == 3:
        return [0] * (w - 1) + [0x80]
    if c == 4:
        return [255] * (w - 1) + [0x7F]
    if c == 5:
        return [rng.choice(EDGE8) for _ in range(w)]
    if c == 6:  # small number
        return [rng.randrange(0, 70)] + [0] * (w - 1)
    if c == 7:  # one bit
        b = rng.randrange(8 * w)
        return [(1 << (b % 8)) if i == b // 8 else 0 for i in range(w)]
    return [rng.randrange(256) for _ in range(w)]


def make_envs(rng, regs, mems, k, regw=16, special=None):
    """k environments; every register gets a regw-byte value whose low bytes
    hit edges at the common widths."""
    envs = []
    for i in range(k):
        e = {"regs": {}, "mem": {}}
        for r in regs:
            if i == 0:
                v = [0] * regw
            elif i == 1:
                v = [255] * regw
            else:
                lw = rng.choice([1, 2, 4, 8, regw])
                v = edge_bytes(rng, lw) + [rng.choice([0, 0, 255, rng.randrange(256)]) for _ in range(regw - lw)]
            e["regs"][r] = v
        for m in mems:
            e["mem"][m] = {"seed": rng.randrange(1000), "over": []}
        if special:
            special(e, i)
        envs.append(e)
    return envs


class ExprGen:
    def __init__(self, rng, widths=(1, 2, 4, 8), regs=("r1", "r2", "r3"), mems=("m1", "m2"),
                 p_less=0.2, p_mem=0.12, p_wg=0.15, p_const=0.45, big_consts=True, max_div_w=64):
        self.rng, self.widths, self.regnames, self.memnames = rng, list(widths), list(regs), list(mems)
        self.p_less, self.p_mem, self.p_wg, self.p_const = p_less, p_mem, p_wg, p_const
        self.max_div_w = max_div_w   # the reference division is bit-serial: keep it off the widest operations

    def w(self):
        return self.rng.choice(self.widths)

    def leaf(self, t):
        r = self.rng
        if r.random() < self.p_const:
            w = self.w()
            return t.const(edge_bytes(r, w))
        return t.reg(r.choice(self.regnames), self.w())

    def gen(self, t, depth):
        r = self.rng
        if depth <= 0 or r.random() < 0.15:
            return self.leaf(t)
        x = r.random()
        if x < self.p_less:
            return t.less(self.gen(t, depth - 1), self.gen(t, depth - 1),
                          self.gen(t, depth - 1), self.gen(t, depth - 1), self.w())
        x -= self.p_less
        if x < self.p_mem:
            return t.mem(r.choice(self.memnames), self.gen(t, depth - 1), self.w())
        x -= self.p_mem
        if x < self.p_wg:
            return t.wg(self.gen(t, depth - 1), self.w())
        op = r.choice(OPS)
        a, b = self.gen(t, depth - 1), self.gen(t, depth - 1)
        if op in (2, 3) and r.random() < 0.7:  # plausible shift amounts
            w = self.w()
            b = t.constn(r.choice([0, 1, 7, 8, 8 * w - 1, 8 * w, 8 * w + 1, 9, 15, 16, 33]) % 256, 1)
            return t.bin(op, a, b, w)
        w = self.w()
        if op == 5 and w > self.max_div_w:
            op = r.choice([1, 4, 6])
        return t.bin(op, a, b, w)
