#!/bin/sh
# Offline setup: nothing to download; warm the Go build cache for the harness and check the tools.
set -e
cd "$(dirname "$0")"
export GOFLAGS=-mod=mod GOPROXY=off GOSUMDB=off GOTOOLCHAIN=local
mkdir -p out/bin out/run evidence
python3 - <<'PY'
import sys
sys.path.insert(0, '.')
from driver import core
core.build_harness()
print("harness built:", core.BIN)
PY
java -cp /opt/veriftools/tla/tla2tools.jar tlc2.TLC -h >/dev/null 2>&1 || true
echo setup ok
